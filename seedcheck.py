#!/usr/bin/env python3
"""Confirms an independently written breaking change and runs the checks on it.

  seedcheck.py <seed-id> <property> <dir-with-patch.diff-and-demo> [--all] [--keep]

Steps (all in a scratch git worktree of /repo under /tmp, removed afterwards):
  1. demonstration passes on the unchanged tree
  2. patch applies, tree builds, demonstration FAILS with the change
  3. the repository's complete unedited test suite still passes with the change
  4. ./run.sh <property> quick (then thorough with a short budget if quick is quiet) with VERIF_REPO=<worktree>
     --all: also the quick tier of every other claimed check (cross-detection)
Writes /verif/seeded/<seed-id>/{patch.diff, demo files, README.md, meta.json}.
"""
import glob
import json
import os
import re
import shutil
import subprocess
import sys

VERIF = os.path.dirname(os.path.abspath(__file__))
GOENV = dict(os.environ, GOFLAGS="-mod=mod", GOPROXY="off")
ALL = ["C05", "C06", "C07", "C08", "C09", "C10", "C12", "C13", "C18"]


def run(cmd, **kw):
    return subprocess.run(cmd, stdout=subprocess.PIPE, stderr=subprocess.STDOUT, text=True, **kw)


def main():
    args = [a for a in sys.argv[1:] if not a.startswith("--")]
    sid, prop, src = args[0], args[1], args[2]
    if os.path.abspath(src).startswith(os.path.join(VERIF, "seeded")):
        # stored seed: demonstrations are kept with a .txt suffix; restore the names in a scratch directory
        tmp = "/tmp/seedsrc-" + sid
        shutil.rmtree(tmp, ignore_errors=True)
        os.makedirs(tmp)
        for f in os.listdir(src):
            if f == "meta.json":
                continue
            shutil.copy(os.path.join(src, f), os.path.join(tmp, f[:-4] if f.endswith(".go.txt") else f))
        src = tmp
    wt = "/tmp/seedwt-" + sid
    run(["git", "-C", "/repo", "worktree", "remove", "--force", wt])
    p = run(["git", "-C", "/repo", "worktree", "add", "--detach", wt, "HEAD"])
    if p.returncode != 0:
        print(p.stdout)
        return 2
    meta = {"seed_id": sid, "breaks_property": prop, "ran": [], "repo_commit": run(["git", "-C", "/repo", "rev-parse", "HEAD"]).stdout.strip()}
    try:
        demos = [f for f in glob.glob(os.path.join(src, "*_test.go"))]
        other = [f for f in glob.glob(os.path.join(src, "*.go")) if f not in demos]
        if not demos:
            print("no demonstration *_test.go in", src)
            return 2
        readme = open(os.path.join(src, "README.md")).read() if os.path.exists(os.path.join(src, "README.md")) else ""
        # where does the demo go? default: repository root
        dest = wt
        m = re.search(r"(?i)place[d]? (?:it )?(?:in|into|under) [`']?([A-Za-z0-9_/.-]+)[`']?", readme)
        names = []
        for d in demos:
            names += re.findall(r"func (Test\w+)\(", open(d).read())
        pat = "^(" + "|".join(names) + ")$"
        race = "-race" in readme and "go test -race" in readme

        def demo(label):
            for d in demos + other:
                shutil.copy(d, dest)
            cmd = ["go", "test", "-count=1", "-vet=off", "-run", pat, "-timeout", "300s"] + (["-race"] if race else []) + ["."]
            r = run(cmd, cwd=dest, env=GOENV)
            for d in demos + other:
                os.remove(os.path.join(dest, os.path.basename(d)))
            meta["ran"].append({"what": label, "cmd": " ".join(cmd), "exit": r.returncode, "tail": r.stdout[-600:]})
            return r.returncode

        rc0 = demo("demonstration on the unchanged tree (must pass)")
        p = run(["git", "apply", os.path.join(os.path.abspath(src), "patch.diff")], cwd=wt)
        if p.returncode != 0:
            print("patch does not apply:", p.stdout)
            return 2
        b = run(["go", "build", "./..."], cwd=wt, env=GOENV)
        rc1 = demo("demonstration with the change (must fail)")
        s = run(["go", "test", "-count=1", "-vet=off", "-timeout", "25m", "./..."], cwd=wt, env=GOENV)
        meta["ran"].append({"what": "complete unedited suite with the change (must pass)", "cmd": "go test -count=1 -vet=off ./...", "exit": s.returncode, "tail": s.stdout[-400:]})
        ok = rc0 == 0 and b.returncode == 0 and rc1 != 0 and s.returncode == 0
        meta["confirmed"] = ok
        print("%s: demo-without=%d build=%d demo-with=%d suite=%d => %s" % (sid, rc0, b.returncode, rc1, s.returncode, "CONFIRMED" if ok else "NOT A VALID SEED"))
        if not ok:
            print(json.dumps(meta["ran"], indent=1)[-3000:])
        detected = {}
        if ok:
            props = [prop] + ([q for q in ALL if q != prop] if "--all" in sys.argv else [])
            for q in props:
                e = dict(os.environ, VERIF_REPO=wt)
                r = run([os.path.join(VERIF, "run.sh"), q, "quick"], env=e)
                caught = r.returncode == 1 and ("VIOLATION property=" + q) in r.stdout
                line = [l for l in r.stdout.splitlines() if l.startswith("  oracle=")]
                detected[q] = {"tier": "quick", "caught": caught, "exit": r.returncode, "oracle": (line[0][:400] if line else "")}
                if q == prop and not caught and r.returncode == 0:
                    e2 = dict(e, VERIF_BUDGET_S="120")
                    r = run([os.path.join(VERIF, "run.sh"), q, "thorough"], env=e2)
                    caught = r.returncode == 1 and ("VIOLATION property=" + q) in r.stdout
                    line = [l for l in r.stdout.splitlines() if l.startswith("  oracle=")]
                    detected[q] = {"tier": "thorough(120s)", "caught": caught, "exit": r.returncode, "oracle": (line[0][:400] if line else "")}
                if r.returncode == 2:
                    detected[q]["output_tail"] = r.stdout[-1500:]
                print("   %s %s: %s %s" % (q, detected[q]["tier"], "CAUGHT" if detected[q]["caught"] else "missed (exit %d)" % detected[q]["exit"], detected[q]["oracle"][:200]))
        meta["checks"] = detected
        out = os.path.join(VERIF, "seeded", sid)
        if ok or "--keep" in sys.argv:
            os.makedirs(out, exist_ok=True)
            for f in ["patch.diff", "README.md"] + [os.path.basename(d) for d in demos + other]:
                if os.path.exists(os.path.join(src, f)):
                    # demonstrations are stored with a .txt suffix so that no Go tooling ever picks them up under /verif
                    shutil.copy(os.path.join(src, f), os.path.join(out, f + (".txt" if f.endswith(".go") else "")))
            json.dump(meta, open(os.path.join(out, "meta.json"), "w"), indent=1)
        return 0 if ok else 1
    finally:
        run(["git", "-C", "/repo", "worktree", "remove", "--force", wt])
        shutil.rmtree(wt, ignore_errors=True)
        # build output and scratch evidence of this target
        tag = "alt-" + os.path.basename(wt)
        for f in glob.glob(os.path.join(VERIF, "bin", "sim-" + tag + "*")) + glob.glob(os.path.join(VERIF, "bin", tag + ".*")):
            os.remove(f)
        shutil.rmtree(os.path.join(VERIF, "bin", tag), ignore_errors=True)


if __name__ == "__main__":
    sys.exit(main())
