#!/bin/sh
# ./run.sh setup | <ID> quick|thorough | replay <file> | selftest-determinism [ids]
cd "$(dirname "$0")" || exit 2
export GOFLAGS=-mod=mod GOPROXY=off GOSUMDB=off GOTOOLCHAIN=local
case "$1" in
  setup|replay|selftest-determinism) exec python3 run.py "$@" ;;
  C[0-9][0-9]) exec python3 run.py check "$1" "${2:-${VERIF_TIER:-quick}}" ;;
  *) echo "usage: $0 setup | <ID> quick|thorough | replay <file> | selftest-determinism [ids]"; exit 2 ;;
esac
