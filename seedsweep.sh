#!/bin/sh
# Re-confirms every stored seed and runs the checks on it: ./seedsweep.sh [--all]
cd "$(dirname "$0")" || exit 2
for d in seeded/*/; do
  id=$(basename "$d"); prop=${id%%-*}
  python3 seedcheck.py "$id" "$prop" "/verif/seeded/$id" "$@" 2>&1 | grep -E "CONFIRMED|NOT A VALID|CAUGHT|missed"
  rm -rf "/tmp/seedsrc-$id"
done
