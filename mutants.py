#!/usr/bin/env python3
"""Sensitivity self-test (development time, not registered in MANIFEST).

Each mutant is a small edit of koron-go/z80 that compiles and passes the
existing test suite but breaks one of the claimed properties. The edit is
applied to a scratch copy of the repository outside /repo and /verif, the
named quick checks are pointed at the copy (VERIF_REPO) and must report a
violation; the copy is removed afterwards.

  mutants.py            run all
  mutants.py name...    run some
  mutants.py --no-suite skip running the repository's own test suite on the mutant
"""
import os
import shutil
import subprocess
import sys
import tempfile

VERIF = os.path.dirname(os.path.abspath(__file__))
REPO = "/repo"

M = []


def mutant(name, props, edits, note="", quiet=()):
    """props: checks that must report a violation; quiet: checks that must stay quiet
    (behaviour-preserving or legitimate changes: alarming on them would be a false alarm)."""
    M.append(dict(name=name, props=props, edits=edits, note=note, quiet=list(quiet)))


# ---- C07 / C06 / C09 -------------------------------------------------------
mutant("nmi-pushes-pc-plus-1", ["C07", "C06"], [("cpu.go", """		cpu.SP -= 2
		cpu.writeU16(cpu.SP, cpu.PC)
		cpu.PC = 0x0066""", """		cpu.SP -= 2
		cpu.writeU16(cpu.SP, cpu.PC+1)
		cpu.PC = 0x0066""")])
mutant("ldir-rewinds-by-1", ["C09"], [("op_exbtsg.go", """func oopLDIR(cpu *CPU) {
	oopLDI(cpu)
	if cpu.AF.Lo&maskPV != 0 { // cpu.BC != 0
		cpu.PC -= 2""", """func oopLDIR(cpu *CPU) {
	oopLDI(cpu)
	if cpu.AF.Lo&maskPV != 0 { // cpu.BC != 0
		cpu.PC -= 1""")], note="zexdoc ldir group would catch a gross break; -1 lands on B0 (OR B) then re-decodes... kept only if suite passes")
mutant("retn-no-iff1-restore", ["C06", "C07"], [("op_callret.go", """	cpu.SP += 2
	cpu.IFF1 = cpu.IFF2
}""", """	cpu.SP += 2
}""")])
mutant("ei-sets-only-iff1", ["C06"], [("op_ctrl.go", """	cpu.IFF1 = true
	cpu.IFF2 = true""", """	cpu.IFF1 = true""")])
mutant("reti-notifies-twice", ["C06"], [("op_callret.go", """	if cpu.RETIHandler != nil {
		cpu.RETIHandler.RETIHandle()
	}""", """	if cpu.RETIHandler != nil {
		cpu.RETIHandler.RETIHandle()
		cpu.RETIHandler.RETIHandle()
	}""")])
mutant("ret-notifies-reti", ["C06"], [("op_callret.go", """func oopRET(cpu *CPU) {""", """func oopRET(cpu *CPU) {
	if cpu.RETIHandler != nil {
		cpu.RETIHandler.RETIHandle()
	}""")])
mutant("im2-no-lsb-mask-off-by-table", ["C06"], [("cpu.go", "cpu.PC = cpu.readU16(toU16(vector, cpu.IR.Hi))", "cpu.PC = cpu.readU16(toU16(vector, cpu.IR.Hi+cpu.IR.Lo>>7))")],
       note="IM 2 table page taken from I + bit 7 of R: only wrong when R bit 7 is set")
mutant("nmi-keeps-iff2", ["C06"], [("cpu.go", """		cpu.IFF2 = cpu.IFF1
		cpu.IFF1 = false
		return true""", """		cpu.IFF1 = false
		return true""")])
mutant("refused-int-dropped-when-halted", ["C06", "C07"], [("cpu.go", """	if !cpu.IFF1 {
		return false
	}""", """	if !cpu.IFF1 {
		return cpu.HALT && cpu.Memory.Get(cpu.PC) == 0x76 && cpu.SP == 0xffff
	}""")], note="refused request silently consumed in a corner state")
mutant("halt-resume-after", ["C07"], [("cpu.go", """	case 1:
		// Interrupt with IM 1
		cpu.SP -= 2
		cpu.writeU16(cpu.SP, cpu.PC)""", """	case 1:
		// Interrupt with IM 1
		cpu.SP -= 2
		if cpu.Memory.Get(cpu.PC) == 0xed && cpu.Memory.Get(cpu.PC+1) == 0xb1 {
			cpu.PC += 2
		}
		cpu.writeU16(cpu.SP, cpu.PC)""")], note="IM 1 accepted between CPIR repetitions resumes after the instruction")


# ---- C08 -------------------------------------------------------------------
mutant("bp-tested-before-step", ["C08"], [("cpu.go", """		cpu.Step()
		if cpu.BreakPoints != nil {
			if _, ok := cpu.BreakPoints[cpu.PC]; ok {
				return ErrBreakPoint
			}
		}""", """		if cpu.BreakPoints != nil {
			if _, ok := cpu.BreakPoints[cpu.PC]; ok {
				return ErrBreakPoint
			}
		}
		cpu.Step()""")])
mutant("halt-test-before-bp-test", ["C08"], [("cpu.go", """		cpu.Step()
		if cpu.BreakPoints != nil {
			if _, ok := cpu.BreakPoints[cpu.PC]; ok {
				return ErrBreakPoint
			}
		}
		if cpu.HALT {
			break
		}""", """		cpu.Step()
		if cpu.HALT {
			break
		}
		if cpu.BreakPoints != nil {
			if _, ok := cpu.BreakPoints[cpu.PC]; ok {
				return ErrBreakPoint
			}
		}""")])
mutant("run-keeps-stale-halt", ["C08"], [("cpu.go", """	cpu.HALT = false
	for {""", """	for {""")], note="suite: testIM0 etc. call Run twice... may be caught by suite")
mutant("run-skips-step-when-halted-on-entry", ["C08"], [("cpu.go", """	cpu.HALT = false
	for {""", """	if cpu.HALT && cpu.Interrupt == nil {
		return nil
	}
	cpu.HALT = false
	for {""")])
mutant("run-samples-interrupt-once", ["C08"], [("cpu.go", """	cpu.HALT = false
	for {
		if atomic.LoadInt32(&canceled) != 0 {
			return ctxErr
		}
		cpu.Step()""", """	cpu.HALT = false
	first := true
	for {
		if atomic.LoadInt32(&canceled) != 0 {
			return ctxErr
		}
		if first || cpu.Interrupt == nil || cpu.Interrupt.Type == NMIType {
			cpu.Step()
		} else {
			cpu.executeOne()
		}
		first = false""")], note="maskable requests raised by device callbacks during Run are only honoured at Run entry")


# ---- C09 -------------------------------------------------------------------
mutant("ldir-whole-operation-in-one-step", ["C09"], [("op_exbtsg.go", """func oopLDIR(cpu *CPU) {
	oopLDI(cpu)
	if cpu.AF.Lo&maskPV != 0 { // cpu.BC != 0
		cpu.PC -= 2
	}
}""", """func oopLDIR(cpu *CPU) {
	oopLDI(cpu)
	for cpu.AF.Lo&maskPV != 0 { // cpu.BC != 0
		oopLDI(cpu)
	}
}""")])
mutant("otdr-increments-hl", ["C09"], [("op_inout.go", """func oopOTDR(cpu *CPU) {
	cpu.ioOut(cpu.BC.Lo, cpu.Memory.Get(cpu.HL.U16()))
	cpu.BC.Hi--
	cpu.HL.SetU16(cpu.HL.U16() - 1)""", """func oopOTDR(cpu *CPU) {
	cpu.ioOut(cpu.BC.Lo, cpu.Memory.Get(cpu.HL.U16()))
	cpu.BC.Hi--
	cpu.HL.SetU16(cpu.HL.U16() + 1)""")])
mutant("cpir-ignores-match-on-page-boundary", ["C09"], [("op_exbtsg.go", """func oopCPIR(cpu *CPU) {
	oopCPI(cpu)
	// cpu.BC != 0 && A - (HL) != 0
	if cpu.AF.Lo&maskPV != 0 && cpu.AF.Lo&maskZ == 0 {""", """func oopCPIR(cpu *CPU) {
	oopCPI(cpu)
	// cpu.BC != 0 && A - (HL) != 0
	if cpu.AF.Lo&maskPV != 0 && (cpu.AF.Lo&maskZ == 0 || cpu.HL.Lo == 0 && cpu.BC.Hi != 0) {""")], note="needs a match exactly at xxFF with BC >= 256 remaining")
mutant("inir-256-when-b0-stops-at-once", ["C09"], [("op_inout.go", """func oopINIR(cpu *CPU) {
	cpu.Memory.Set(cpu.HL.U16(), cpu.ioIn(cpu.BC.Lo))
	cpu.BC.Hi--
	cpu.HL.SetU16(cpu.HL.U16() + 1)
	cpu.updateFlagIObZ()
	if cpu.BC.Hi != 0 {""", """func oopINIR(cpu *CPU) {
	cpu.Memory.Set(cpu.HL.U16(), cpu.ioIn(cpu.BC.Lo))
	cpu.BC.Hi--
	cpu.HL.SetU16(cpu.HL.U16() + 1)
	cpu.updateFlagIObZ()
	if cpu.BC.Hi != 0 && cpu.BC.Hi != 0xff {""")], note="B=0 must mean 256 transfers")
mutant("lddr-reads-after-write", ["C09"], [("op_exbtsg.go", """	a := cpu.Memory.Get(hl)
	cpu.Memory.Set(de, a)
	cpu.DE.SetU16(de - 1)""", """	cpu.Memory.Set(de, cpu.Memory.Get(hl))
	a := cpu.Memory.Get(de)
	cpu.DE.SetU16(de - 1)""")], note="extra read of the destination: invisible in final memory")


# ---- C05 -------------------------------------------------------------------
mutant("out-c-r-uses-port-b", ["C05"], [("op_inout.go", """func xopOUTCPd(cpu *CPU) {
	cpu.ioOut(cpu.BC.Lo, cpu.DE.Hi)""", """func xopOUTCPd(cpu *CPU) {
	cpu.ioOut(cpu.BC.Hi, cpu.DE.Hi)""")])
mutant("ret-cc-pops-then-decides", ["C05"], [("op_callret.go", """func xopRETfPV(cpu *CPU) {
	if cpu.AF.Lo&maskPV != 0 {
		oopRET(cpu)
	}
}""", """func xopRETfPV(cpu *CPU) {
	sp, pc := cpu.SP, cpu.PC
	oopRET(cpu)
	if cpu.AF.Lo&maskPV == 0 {
		cpu.SP, cpu.PC = sp, pc
	}
}""")], note="untaken RET PE touches the stack (reads), final state identical")
mutant("inc-ixd-reads-twice", ["C05"], [("op_arith8.go", """	p := addrOff(cpu.IX, d)
	x := cpu.Memory.Get(p)
	cpu.Memory.Set(p, cpu.incU8(x))""", """	p := addrOff(cpu.IX, d)
	x := cpu.Memory.Get(p)
	cpu.Memory.Set(p, cpu.incU8(cpu.Memory.Get(p)))
	_ = x""")])
mutant("ld-nn-a-writes-twice", ["C05"], [("op_load8.go", """func oopLDnnPA(cpu *CPU) {""", """func oopLDnnPA(cpu *CPU) {
	defer func() { cpu.Memory.Set(toU16(cpu.Memory.Get(cpu.PC-2), cpu.Memory.Get(cpu.PC-1)), cpu.AF.Hi) }()""")], note="repeated write + re-read of operand bytes")
mutant("in-a-n-reads-port-twice", ["C05"], [("op_inout.go", """	n := cpu.fetch()
	cpu.AF.Hi = cpu.ioIn(n)""", """	n := cpu.fetch()
	cpu.AF.Hi = cpu.ioIn(n)
	if cpu.AF.Hi == 0xff {
		cpu.AF.Hi = cpu.ioIn(n)
	}""")], note="floating-bus retry: doubled port read only when the device returns FF")
mutant("set-b-hl-skips-write-when-unchanged", ["C05"], [("op_bitop.go", """	x := cpu.Memory.Get(p)
	x = cpu.bitset8(b, x)
	cpu.Memory.Set(p, x)
}""", """	x := cpu.Memory.Get(p)
	if y := cpu.bitset8(b, x); y != x {
		cpu.Memory.Set(p, y)
	}
}""")], note="missing write-back of an unchanged value: device sees no write")


mutant("dumbmemory-fastpath-wrong-byte-order", ["C10"], [("cpu.go", """func (cpu *CPU) readU16(addr uint16) uint16 {
	l := cpu.Memory.Get(addr)""", """func (cpu *CPU) readU16(addr uint16) uint16 {
	if dm, ok := cpu.Memory.(DumbMemory); ok && int(addr)+1 < len(dm) {
		return toU16(dm[addr+1], dm[addr])
	}
	l := cpu.Memory.Get(addr)""")], note="type-specific fast path with swapped bytes: only when the CPU runs directly on a DumbMemory")


mutant("reti-handler-cached-on-first-use", ["C06", "C07"], [("z80.go", """	// HALT indicates whether the last Run() is terminated with HALT op.
	HALT bool
}""", """	// HALT indicates whether the last Run() is terminated with HALT op.
	HALT bool

	retiCached RETIHandler
}"""), ("op_callret.go", """	if cpu.RETIHandler != nil {
		cpu.RETIHandler.RETIHandle()
	}""", """	if cpu.retiCached == nil {
		cpu.retiCached = cpu.RETIHandler
	}
	if cpu.retiCached != nil {
		cpu.retiCached.RETIHandle()
	}""")], note="handler looked up once and cached: stale after the host registers another handler")
mutant("accepted-request-data-released", ["C06"], [("cpu.go", """	if cpu.Interrupt != nil && cpu.processInterrupt() {
		cpu.Interrupt = nil
		return
	}""", """	if cpu.Interrupt != nil && cpu.processInterrupt() {
		cpu.Interrupt.Data = nil // release the device's buffer
		cpu.Interrupt = nil
		return
	}""")], note="the library writes into the request value: a host that re-presents the same *Interrupt gets an empty one")


mutant("decode-length-cache-invalidated-by-cpu-writes-only", ["C10"], [("z80.go", """	// HALT indicates whether the last Run() is terminated with HALT op.
	HALT bool
}""", """	// HALT indicates whether the last Run() is terminated with HALT op.
	HALT bool

	nopAt map[uint16]bool
}"""), ("cpu.go", """	// execute an op-code.
	cpu.executeOne()""", """	// execute an op-code.
	if cpu.nopAt[cpu.PC] {
		// known NOP at this address: skip the decoder (the fetch still happens)
		cpu.fetchM1()
		return
	}
	pc := cpu.PC
	cpu.executeOne()
	if cpu.PC == pc+1 && cpu.Memory.Get(pc) == 0 {
		if cpu.nopAt == nil {
			cpu.nopAt = map[uint16]bool{}
		}
		cpu.nopAt[pc] = true
	}""")], note="per-CPU cache of 'this address holds a NOP', never invalidated: wrong after self-modification or host DMA")


# ---- C12 -------------------------------------------------------------------
mutant("dumbmemory-set-unguarded", ["C12"], [("memio.go", """func (dm DumbMemory) Set(addr uint16, value uint8) {
	if int(addr) >= len(dm) {
		return
	}""", """func (dm DumbMemory) Set(addr uint16, value uint8) {
	if int(addr) > len(dm) {
		return
	}""")], note="off-by-one bound: write exactly at len panics")
mutant("ini-calls-io-directly", ["C12"], [("op_inout.go", """func oopIND(cpu *CPU) {
	cpu.Memory.Set(cpu.HL.U16(), cpu.ioIn(cpu.BC.Lo))""", """func oopIND(cpu *CPU) {
	cpu.Memory.Set(cpu.HL.U16(), cpu.IO.In(cpu.BC.Lo))""")], note="nil IO panics on IND only")
mutant("ed-invalid-reexecutes-second-byte", [], quiet=["C12"], edits=[("operation.go", """		case 0xbb:
			oopOTDR(cpu)

		default:
			cpu.invalidCode(c0, c1)
		}""", """		case 0xbb:
			oopOTDR(cpu)

		default:
			cpu.invalidCode(c0, c1)
			cpu.PC--
		}""")], note="unsupported ED xx: only the prefix is consumed, the second byte is decoded again. Since the second informed review (F.6 A3) this is within the reading of 'consumed and execution continues with the next byte': must stay quiet")
mutant("im-out-of-range-indexes-table", ["C12"], [("cpu.go", """	switch cpu.IM {
	case 0:
		// Interrupt with IM 0""", """	_ = [3]int{}[cpu.IM&0xff]
	switch cpu.IM {
	case 0:
		// Interrupt with IM 0""")], note="table-driven dispatch on IM without range check")

# ---- C10 -------------------------------------------------------------------
mutant("package-level-decode-cache", ["C10"], [("cpu.go", """// fetchM1 fetches a byte for M1 cycle.
func (cpu *CPU) fetchM1() uint8 {
	c := cpu.Memory.Get(cpu.PC)""", """var m1cache [65536]int16

// fetchM1 fetches a byte for M1 cycle.
func (cpu *CPU) fetchM1() uint8 {
	c := cpu.Memory.Get(cpu.PC)
	if v := m1cache[cpu.PC]; v != 0 && cpu.PC >= 0xf000 {
		c = uint8(v - 1)
	}
	m1cache[cpu.PC] = int16(c) + 1""")], note="package-level opcode cache keyed by PC, used only in the top 4 KiB; shared by all CPUs, racy")
mutant("hidden-ei-delay-field", ["C10"], [("z80.go", """	// HALT indicates whether the last Run() is terminated with HALT op.
	HALT bool
}""", """	// HALT indicates whether the last Run() is terminated with HALT op.
	HALT bool

	afterEI bool
}"""), ("op_ctrl.go", """	cpu.IFF1 = true
	cpu.IFF2 = true""", """	cpu.IFF1 = true
	cpu.IFF2 = true
	cpu.afterEI = true"""), ("cpu.go", """	if cpu.Interrupt != nil && cpu.processInterrupt() {
		cpu.Interrupt = nil
		return
	}""", """	if cpu.afterEI {
		// interrupts are sampled one instruction after EI
		cpu.afterEI = false
		if cpu.Interrupt != nil && cpu.Interrupt.Type != NMIType {
			cpu.executeOne()
			return
		}
	}
	if cpu.Interrupt != nil && cpu.processInterrupt() {
		cpu.Interrupt = nil
		return
	}""")], note="correct EI delay, but kept in an unexported CPU field: a CPU rebuilt from States right after EI with a request pending differs")
mutant("package-level-scratch-register", ["C10"], [("cpu.go", """func (cpu *CPU) readU16(addr uint16) uint16 {
	l := cpu.Memory.Get(addr)
	h := cpu.Memory.Get(addr + 1)
	return toU16(l, h)
}""", """var scratchLo uint8

func (cpu *CPU) readU16(addr uint16) uint16 {
	scratchLo = cpu.Memory.Get(addr)
	h := cpu.Memory.Get(addr + 1)
	return toU16(scratchLo, h)
}""")], note="package-level temporary between the two reads of a 16-bit load: only wrong if another CPU runs in between")


# ---- C18 -------------------------------------------------------------------
mutant("bdos-prints-dollar", ["C18"], [("internal/tinycpm/tinycpm.go", """	0x00, 0xc9, 0x1a, 0xfe, 0x24, 0xc8, 0xd3, 0x00, 0x13, 0x18, 0xf7,""", """	0x00, 0xc9, 0x1a, 0xd3, 0x00, 0xfe, 0x24, 0xc8, 0x13, 0x18, 0xf7,""")], note="function 9 prints the terminating $ - TestExerciser funccall_09h may catch it")
mutant("io-out-drops-high-bytes", ["C18"], [("internal/tinycpm/tinycpm.go", """	b := []byte{value}
	io.stdout.Write(b)""", """	b := []byte{value}
	if value >= 0x80 && value&0x7f < 0x20 {
		return
	}
	io.stdout.Write(b)""")], note="console filters high control bytes")
mutant("io-out-buffers-two-bytes", ["C18"], [("internal/tinycpm/tinycpm.go", """type IO struct {
	stdout io.Writer
	warnl  *log.Logger
}""", """type IO struct {
	stdout io.Writer
	warnl  *log.Logger
	held   []byte
}"""), ("internal/tinycpm/tinycpm.go", """	b := []byte{value}
	io.stdout.Write(b)""", """	io.held = append(io.held, value)
	if len(io.held) < 2 && value != 0x0a {
		return
	}
	io.stdout.Write(io.held)
	io.held = io.held[:0]""")], note="output buffered in pairs: the last byte of an odd-length stream never reaches the writer")
mutant("io-out-retries-on-error", ["C18"], [("internal/tinycpm/tinycpm.go", """	b := []byte{value}
	io.stdout.Write(b)""", """	b := []byte{value}
	if n, err := io.stdout.Write(b); err != nil && n == 1 {
		io.stdout.Write(b)
	}""")], note="retry after an error although the byte was taken: duplicate under writer faults only")
mutant("in-port-no-warning", ["C18"], [("internal/tinycpm/tinycpm.go", """	io.warnl.Printf("not impl. I/O In addr=0x%02x", addr)
	return 0""", """	if addr != 0 {
		io.warnl.Printf("not impl. I/O In addr=0x%02x", addr)
	}
	return 0""")], note="reading port 0 silently accepted")
mutant("bdos-clobbers-stack-on-long-string", ["C18"], [("internal/tinycpm/tinycpm.go", """	0x00, 0xc9, 0x1a, 0xfe, 0x24, 0xc8, 0xd3, 0x00, 0x13, 0x18, 0xf7,""", """	0x00, 0xc9, 0x1a, 0xfe, 0x24, 0xc8, 0xd3, 0x00, 0x1c, 0x18, 0xf7,""")], note="INC E instead of INC DE: strings crossing a 256-byte page repeat/print garbage")


# ---- C13 -------------------------------------------------------------------
mutant("run-no-deferred-cancel", ["C13"], [("cpu.go", """	ctx2, cancel := context.WithCancel(ctx)
	defer cancel()""", """	ctx2, cancel := context.WithCancel(ctx)
	_ = cancel""")], note="watcher goroutine leaks on every normal return")
mutant("watcher-waits-on-parent", ["C13"], [("cpu.go", """		<-ctx2.Done()
		ctxErr = ctx.Err()""", """		_ = ctx2
		<-ctx.Done()
		ctxErr = ctx.Err()""")], note="watcher waits on the caller's context: leaks when that is never cancelled")
mutant("flag-published-before-error", ["C13"], [("cpu.go", """		ctxErr = ctx.Err()
		atomic.StoreInt32(&canceled, 1)""", """		atomic.StoreInt32(&canceled, 1)
		ctxErr = ctx.Err()""")], note="hand-off publishes the flag before storing the error: Run may return nil")
mutant("no-cancel-check-without-breakpoints", ["C13"], [("cpu.go", """	cpu.HALT = false
	for {
		if atomic.LoadInt32(&canceled) != 0 {
			return ctxErr
		}""", """	cpu.HALT = false
	if cpu.BreakPoints == nil {
		// fast path
		for !cpu.HALT {
			cpu.Step()
		}
		return nil
	}
	for {
		if atomic.LoadInt32(&canceled) != 0 {
			return ctxErr
		}""")], note="breakpoint-free fast loop never looks at the cancellation flag")
mutant("cancel-check-every-2pow20-steps", ["C13"], [("cpu.go", """	cpu.HALT = false
	for {
		if atomic.LoadInt32(&canceled) != 0 {
			return ctxErr
		}""", """	cpu.HALT = false
	for n := uint32(0); ; n++ {
		if n&0xfffff == 0 && atomic.LoadInt32(&canceled) != 0 {
			return ctxErr
		}""")], note="flag polled every 1M Steps: exceeds the generous bound (65536 Steps)")
mutant("cancel-check-every-64-steps", [], quiet=["C13", "C08"], edits=[("cpu.go", """	cpu.HALT = false
	for {
		if atomic.LoadInt32(&canceled) != 0 {
			return ctxErr
		}""", """	cpu.HALT = false
	for n := uint32(0); ; n++ {
		if n&0x3f == 0 && atomic.LoadInt32(&canceled) != 0 {
			return ctxErr
		}""")], note="LEGITIMATE optimisation (poll every 64 Steps): must NOT alarm; listed with no property to document that")
mutant("returns-derived-context-error", [], quiet=["C13"], edits=[("cpu.go", """		<-ctx2.Done()
		ctxErr = ctx.Err()""", """		<-ctx2.Done()
		ctxErr = ctx2.Err()""")], note="returns the derived context's error: same value for std contexts, Canceled instead of DeadlineExceeded? (no: propagated) - expected equivalent, should not alarm unless SimCtx error differs")
mutant("worker-goroutine-runs-steps", ["C13"], [("cpu.go", """	cpu.HALT = false
	for {
		if atomic.LoadInt32(&canceled) != 0 {
			return ctxErr
		}
		cpu.Step()""", """	cpu.HALT = false
	for {
		if atomic.LoadInt32(&canceled) != 0 {
			return ctxErr
		}
		if ctx.Err() != nil {
			// context already dead: finish the current "slice" in the background
			go func() { cpu.Step() }()
			return ctx.Err()
		}
		cpu.Step()""")], note="Run returns while a goroutine still steps the CPU")


# ---- third informed review, blind spots B1-B3 ---------------------------------------------------
mutant("run-skips-stop-tests-every-4096th-step", ["C08"], [("cpu.go", """	cpu.HALT = false
	for {
		if atomic.LoadInt32(&canceled) != 0 {
			return ctxErr
		}
		cpu.Step()
		if cpu.BreakPoints != nil {""", """	cpu.HALT = false
	for n := 1; ; n++ {
		if atomic.LoadInt32(&canceled) != 0 {
			return ctxErr
		}
		cpu.Step()
		if n&0xfff == 0 {
			continue
		}
		if cpu.BreakPoints != nil {""")], note="stop tests skipped on every 4096th Step: a breakpoint reached then is run through, a HALT seen one Step late")
mutant("dd-prefix-chain-loops-inside-one-step", ["C12", "C13"], [("operation.go", """	case 0xdd:
		switch c1 := cpu.fetchM1(); c1 {
""", """	case 0xdd:
		c1 := cpu.fetchM1()
		for c1 == 0xdd {
			c1 = cpu.fetchM1()
		}
		switch c1 {
""")], note="last prefix wins, as on silicon - but a memory of nothing but DD never lets the Step return")
mutant("tinycpm-newio-without-warn-logger", ["C18"], [("internal/tinycpm/tinycpm.go", """		stdout: os.Stdout,
		warnl:  log.New(os.Stderr, "[WARN][IO]", 0),
""", """		stdout: os.Stdout,
""")], note="a machine nobody configured panics on its first IN / OUT to another port")

# ---- legitimate variants: every check must stay quiet (third informed review, A1) -----------------
mutant("request-posted-during-acceptance-is-kept", [], quiet=["C05", "C06", "C07", "C08", "C10", "C12"], edits=[
    ("cpu.go", """	if cpu.Interrupt != nil && cpu.processInterrupt() {
		cpu.Interrupt = nil
		return
	}""", """	if req := cpu.Interrupt; req != nil {
		cpu.Interrupt = nil
		if cpu.processInterrupt(req) {
			return
		}
		cpu.Interrupt = req
	}"""),
    ("cpu.go", """func (cpu *CPU) processInterrupt() bool {
	if cpu.Interrupt.Type == NMIType {""", """func (cpu *CPU) processInterrupt(req *Interrupt) bool {
	if req.Type == NMIType {"""),
    ("cpu.go", """		if len(cpu.Interrupt.Data) > 0 {
			savedMemory := cpu.Memory
			cpu.Memory = newIm0data(cpu.PC, cpu.Interrupt.Data, savedMemory)""", """		if len(req.Data) > 0 {
			savedMemory := cpu.Memory
			cpu.Memory = newIm0data(cpu.PC, req.Data, savedMemory)"""),
    ("cpu.go", """		if len(cpu.Interrupt.Data) > 0 {
			// Take the vector first""", """		if len(req.Data) > 0 {
			// Take the vector first"""),
    ("cpu.go", """			vector := cpu.Interrupt.Data[0] & 0xfe""", """			vector := req.Data[0] & 0xfe"""),
], note="the slot is emptied before the acceptance, so a request a device posts during the acknowledge push survives until the next Step instead of being erased with the served one: no statement promises an empty slot after an acceptance")

# ---- fourth informed review: legitimate variants that alarmed (all must stay quiet now) ------------
mutant("bdos-keeps-a-private-variable-in-its-page", [], quiet=["C18"], edits=[("internal/tinycpm/tinycpm.go", """	0x79, 0xfe, 0x02, 0x28, 0x05, 0xfe, 0x09, 0x28, 0x05, 0x76, 0x7b, 0xd3,""", """	0x79, 0x32, 0x80, 0xff, 0xfe, 0x02, 0x28, 0x05, 0xfe, 0x09, 0x28, 0x05, 0x76, 0x7b, 0xd3,""")],
       note="LD (FF80h),A in the BDOS stub: the system's own page is not the caller's memory")
mutant("tinycpm-default-warn-logger-made-at-package-level", [], quiet=["C18"], edits=[("internal/tinycpm/tinycpm.go", """// NewIO creates a new I/O, which used with minimal CP/M
func NewIO() *IO {
	return &IO{
		stdout: os.Stdout,
		warnl:  log.New(os.Stderr, "[WARN][IO]", 0),
	}
}""", """var defaultWarnLogger = log.New(os.Stderr, "[WARN][IO]", 0)

var defaultStdout io.Writer = os.Stdout

// NewIO creates a new I/O, which used with minimal CP/M
func NewIO() *IO {
	return &IO{
		stdout: defaultStdout,
		warnl:  defaultWarnLogger,
	}
}""")], note="defaults captured when the package is initialised: they still are the process's standard streams")
mutant("ignored-index-prefix-is-warned-and-the-next-opcode-runs-in-the-same-step", [], quiet=["C12", "C08", "C05", "C06", "C13"], edits=[
    ("operation.go", """func (cpu *CPU) executeOne() {
	switch c0 := cpu.fetchM1(); c0 {""", """func (cpu *CPU) executeOne() {
	cpu.execute(cpu.fetchM1())
}

func (cpu *CPU) ignoredPrefix(c0, c1 uint8) {
	cpu.invalidCode(c0)
	if c1 == 0xdd || c1 == 0xed || c1 == 0xfd {
		// left for the next Step
		cpu.PC--
		rc := cpu.IR.Lo
		cpu.IR.Lo = rc&0x80 | (rc-1)&0x7f
		return
	}
	cpu.execute(c1)
}

func (cpu *CPU) execute(c0 uint8) {
	switch c0 {"""),
    ("operation.go", """		default:
			cpu.invalidCode(c0, c1)
		}

	case 0xed:""", """		default:
			cpu.ignoredPrefix(c0, c1)
		}

	case 0xed:"""),
    ("operation.go", """		default:
			cpu.invalidCode(c0, c1)
		}

	default:
		cpu.invalidCode(c0)""", """		default:
			cpu.ignoredPrefix(c0, c1)
		}

	default:
		cpu.invalidCode(c0)"""),
], note="as silicon: a DD/FD in front of an opcode it does not modify is ignored (warned about) and that opcode executes at once - data accesses, jumps, HALT and all")
mutant("library-warnings-through-an-own-logger-on-stderr", [], quiet=["C12", "C05"], edits=[("cpu.go", """func (cpu *CPU) warnf(msg string, args ...interface{}) {
	log.Printf("Z80 warn: "+msg, args...)
}""", """var warnLogger = log.New(os.Stderr, "Z80 warn: ", log.LstdFlags)

func (cpu *CPU) warnf(msg string, args ...interface{}) {
	warnLogger.Printf(msg, args...)
}"""), ("cpu.go", """import (
""", """import (
	"os"
""")], note="a chatty library on the real stderr must not block for want of a reader (worker output goes to files)")

# ---- fifth informed review: legitimate variants that alarmed (must stay quiet now) -------------------
mutant("halt-leaves-the-refresh-counter-unchanged", [], quiet=["C08", "C07", "C10", "C13"], edits=[("op_ctrl.go", """	cpu.PC--
	cpu.HALT = true
}""", """	cpu.PC--
	cpu.HALT = true
	rc := cpu.IR.Lo
	cpu.IR.Lo = rc&0x80 | (rc-1)&0x7f
}""")], note="a parked CPU changes nothing, R included: no statement says how R moves")
mutant("im2-table-read-before-the-push", [], quiet=["C06", "C05", "C07"], edits=[("cpu.go", """			cpu.SP -= 2
			cpu.writeU16(cpu.SP, cpu.PC)
			cpu.PC = cpu.readU16(toU16(vector, cpu.IR.Hi))
			cpu.IFF1 = false""", """			target := cpu.readU16(toU16(vector, cpu.IR.Hi))
			cpu.SP -= 2
			cpu.writeU16(cpu.SP, cpu.PC)
			cpu.PC = target
			cpu.IFF1 = false""")], note="differs from push-then-read only when the pushed word lands on the table entry itself")

# ---- sixth informed review: legitimate variants that alarmed (must stay quiet now) -------------------
mutant("ei-delay-by-deferred-iff1", [], quiet=["C06", "C05", "C07", "C08", "C10"], edits=[
    ("z80.go", """	IFF1 bool
	IFF2 bool
	IM   int
}""", """	IFF1 bool
	IFF2 bool
	IM   int

	// EIPending: EI has been executed, IFF1 follows when the next instruction has completed.
	EIPending bool
}"""),
    ("op_ctrl.go", """func oopEI(cpu *CPU) {
	cpu.IFF1 = true
	cpu.IFF2 = true
}""", """func oopEI(cpu *CPU) {
	cpu.IFF2 = true
	cpu.EIPending = true
}"""),
    ("op_ctrl.go", """func oopDI(cpu *CPU) {
	cpu.IFF1 = false
	cpu.IFF2 = false
}""", """func oopDI(cpu *CPU) {
	cpu.IFF1 = false
	cpu.IFF2 = false
	cpu.EIPending = false
}"""),
    ("cpu.go", """	// execute an op-code.
	cpu.executeOne()
}""", """	// execute an op-code.
	due := cpu.EIPending
	cpu.executeOne()
	if due && cpu.EIPending {
		cpu.IFF1 = true
		cpu.EIPending = false
	}
}"""),
    ("cpu.go", """	if cpu.Interrupt != nil && cpu.processInterrupt() {
		cpu.Interrupt = nil
		return
	}""", """	if cpu.Interrupt != nil && cpu.processInterrupt() {
		cpu.Interrupt = nil
		cpu.EIPending = false
		return
	}"""),
    ("cpu.go", """		cpu.PC = 0x0066
		cpu.IFF2 = cpu.IFF1
		cpu.IFF1 = false
		return true""", """		cpu.PC = 0x0066
		cpu.IFF2 = cpu.IFF1 || cpu.EIPending
		cpu.IFF1 = false
		cpu.EIPending = false
		return true"""),
], note="the usual way to implement the EI delay: IFF2 at once, IFF1 when the instruction after EI has completed (state exported in States)")
mutant("tinycpm-warns-once-per-port", [], quiet=["C18"], edits=[("internal/tinycpm/tinycpm.go", """func (io *IO) In(addr uint8) uint8 {
	io.warnl.Printf("not impl. I/O In addr=0x%02x", addr)
	return 0
}""", """var warnedIn, warnedOut [256]bool

func (io *IO) In(addr uint8) uint8 {
	if !io.seenIn[addr] {
		io.seenIn[addr] = true
		io.warnl.Printf("not impl. I/O In addr=0x%02x", addr)
	}
	return 0
}"""), ("internal/tinycpm/tinycpm.go", """	warnl  *log.Logger
}""", """	warnl  *log.Logger

	seenIn, seenOut [256]bool
}"""), ("internal/tinycpm/tinycpm.go", """	if addr != 0 {
		io.warnl.Printf("not impl. I/O Out addr=0x%02x value=0x%02x", addr, value)
		return
	}""", """	if addr != 0 {
		if !io.seenOut[addr] {
			io.seenOut[addr] = true
			io.warnl.Printf("not impl. I/O Out addr=0x%02x value=0x%02x", addr, value)
		}
		return
	}""")], note="a polling program does not flood the log: one warning per (direction, port) and machine")

# ---- seventh informed review: legitimate variants that alarmed (must stay quiet now) ------------------
mutant("tinycpm-warm-boot-resets-the-stack", [], quiet=["C18"], edits=[("internal/tinycpm/tinycpm.go", """	0xc3, 0x03, 0xff, 0x00, 0x00, 0xc3, 0x06, 0xfe,
}""", """	0xc3, 0x00, 0xff, 0x00, 0x00, 0xc3, 0x06, 0xfe,
}

// warm boot: re-initialise the stack, then stop.
var biosFF00 = []byte{
	0x31, 0x00, 0xff, // LD SP,0FF00h
}"""), ("internal/tinycpm/tinycpm.go", """	m.put(0xff03, biosFF03...)
	return m""", """	m.put(0xff00, biosFF00...)
	m.put(0xff03, biosFF03...)
	return m""")], note="JP 0 -> JP FF00: LD SP,FF00 ; HALT at FF03 - what CP/M's warm boot does; SP is promised intact where the BDOS calls return, not after the jump to 0")

def run(cmd, **kw):
    return subprocess.run(cmd, stdout=subprocess.PIPE, stderr=subprocess.STDOUT, text=True, **kw)


def main():
    args = [a for a in sys.argv[1:] if not a.startswith("--")]
    suite = "--no-suite" not in sys.argv
    extra = os.path.join(VERIF, "mutants_extra.py")
    if os.path.exists(extra):
        exec(open(extra).read(), globals())
    todo = [m for m in M if not args or m["name"] in args]
    results = []
    for m in todo:
        d = tempfile.mkdtemp(prefix="verif-mut-")
        try:
            scratch = os.path.join(d, "repo")
            shutil.copytree(REPO, scratch, ignore=shutil.ignore_patterns(".git"))
            ok = True
            for f, old, new in m["edits"]:
                p = os.path.join(scratch, f)
                s = open(p).read()
                if s.count(old) != 1:
                    print("%s: edit does not apply uniquely to %s (%d matches)" % (m["name"], f, s.count(old)))
                    ok = False
                    break
                open(p, "w").write(s.replace(old, new))
            if not ok:
                results.append((m["name"], "EDIT-FAILED"))
                continue
            if suite:
                p = run(["go", "test", "-vet=off", "-count=1", "./..."], cwd=scratch)
                if p.returncode != 0:
                    print("%s: the repository's own suite FAILS on this mutant (not a valid mutant)\n%s" % (m["name"], p.stdout[-800:]))
                    results.append((m["name"], "SUITE-CATCHES"))
                    continue
            for prop in m["props"]:
                e = dict(os.environ, VERIF_REPO=scratch)
                p = run([os.path.join(VERIF, "run.sh"), prop, "quick"], env=e)
                caught = p.returncode == 1 and "VIOLATION property=" + prop in p.stdout
                line = [l for l in p.stdout.splitlines() if l.startswith("  oracle=")]
                print("%-40s %s %-7s %s" % (m["name"], prop, "CAUGHT" if caught else "MISSED(rc=%d)" % p.returncode, (line[0][:160] if line else "")), flush=True)
                if not caught and p.returncode not in (0, 1):
                    print(p.stdout[-1500:])
                results.append((m["name"] + "/" + prop, "CAUGHT" if caught else "MISSED"))
            for prop in m["quiet"]:
                e = dict(os.environ, VERIF_REPO=scratch)
                p = run([os.path.join(VERIF, "run.sh"), prop, "quick"], env=e)
                ok = p.returncode == 0 and "VIOLATION" not in p.stdout
                print("%-40s %s %-7s (must stay quiet)" % (m["name"], prop, "QUIET" if ok else "FALSE-ALARM(rc=%d)" % p.returncode), flush=True)
                if not ok:
                    print(p.stdout[-1500:])
                results.append((m["name"] + "/" + prop, "CAUGHT" if ok else "FALSE-ALARM"))
        finally:
            shutil.rmtree(d, ignore_errors=True)
            # replays of mutants are not evidence about /repo
    missed = [r for r in results if r[1] != "CAUGHT"]
    print("mutants: %d checks, %d not caught: %s" % (len(results), len(missed), missed))
    return 1 if missed else 0


if __name__ == "__main__":
    sys.exit(main())
