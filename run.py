#!/usr/bin/env python3
"""Orchestrator of the deterministic simulation checks for koron-go/z80.

  run.py setup
  run.py check <ID> quick|thorough
  run.py replay <file>
  run.py selftest-determinism [ids...]

Builds the simulator test binary from /verif/sim against the *current working
tree* of the repository (VERIF_REPO, default /repo), shards the seeded
scenario space over worker OS processes, merges their results, confirms every
reported violation by replaying its minimised file in a fresh process, writes
/verif/evidence/<ID>.json and maps exit codes:
  0 = property held on everything explored (KNOWN-FINDING lines allowed)
  1 = violation (line "VIOLATION property=<ID> replay=<path>")
  2 = build / harness / watchdog trouble (never reported as a violation)
"""
import json
import os
import re
import shutil
import subprocess
import sys
import time

VERIF = os.path.dirname(os.path.abspath(__file__))
SIM = os.path.join(VERIF, "sim")
BIN = os.path.join(VERIF, "bin")
EVID = os.path.join(VERIF, "evidence")
REPLAYS = os.path.join(VERIF, "replays")
REPO = os.environ.get("VERIF_REPO", "/repo")
ALT = ""
if REPO != "/repo":
    # sensitivity self-test against a scratch copy: nothing it writes is evidence about /repo. The names
    # carry the scratch directory's name, so several scratch targets can be checked at the same time.
    ALT = "alt-" + re.sub(r"[^A-Za-z0-9_.-]", "_", os.path.basename(os.path.normpath(REPO)))
    EVID = os.path.join(BIN, ALT, "evidence")
    REPLAYS = os.path.join(BIN, ALT, "replays")
GO = "go1.26.8"

ENV = dict(os.environ)
ENV.update(GOFLAGS="-mod=mod", GOPROXY="off", GOSUMDB="off", GOTOOLCHAIN="local", CGO_ENABLED=ENV.get("CGO_ENABLED", "1"))

# per property: (level, needs race binary too, quick count per shard, quick budget s, thorough budget s)
PROPS = {
    "C05": dict(level="exploration", race=False, quick_count=8000, quick_budget=150, thorough_budget=600),
    "C06": dict(level="exploration", race=False, quick_count=40000, quick_budget=150, thorough_budget=600),
    "C07": dict(level="fault_enumeration", race=False, quick_count=300, quick_budget=150, thorough_budget=600),
    "C08": dict(level="exploration", race=False, quick_count=12000, quick_budget=150, thorough_budget=600),
    "C09": dict(level="exploration", race=False, quick_count=6000, quick_budget=150, thorough_budget=600),
    "C10": dict(level="fault_enumeration", race=True, quick_count=300, quick_budget=150, thorough_budget=600),
    "C12": dict(level="exploration", race=True, quick_count=8000, quick_budget=150, thorough_budget=600),
    "C13": dict(level="fault_enumeration", race=True, quick_count=200, quick_budget=150, thorough_budget=600),
    "C18": dict(level="exploration", race=True, quick_count=5000, quick_budget=150, thorough_budget=600),
}

# oracles of the labelled side-cars (free-running goroutines: runtime monitoring, not schedule-replayable)
NOT_OWNED = {"reuse-error-value", "error-value-free-running", "isolation-free-running", "race-detector", "console-stream-concurrent"}

# reach probes that a full quick run always hits on a healthy set-up (see PROBE-ZERO)
REQUIRED_PROBES = {
    "C05": ["encoding-checked", "acceptance-step-checked", "request-raised-mid-instruction", "write-watch-device-posts-NMI", "raised/forced", "acceptance-case-checked"],
    "C06": ["accept/", "refused", "retired", "mode0-data-with-padding", "mode0-supplied-RET", "mode0-push-lands-on-interrupted-pc", "on-library-DumbMemory"],
    "C07": ["accepted/", "maskable-handler-left-through-RETN", "acceptance-word-straddles-ffff-0000", "run-driven/"],
    "C08": ["stopped-at-breakpoint", "stopped-at-HALT", "interrupt-accepted-during-run", "breakpoint-wins-over-HALT", "host-pokes-memory-between-calls", "raised/forced", "long-run-stop-after-thousands-of-steps"],
    "C09": ["interrupt@between-repetitions", "crash-restore@element-boundary", "on-library-DumbMemory", "cpu-object-used-before-on-another-memory", "no-io-device-attached"],
    "C10": ["crash-restore", "context-switch-at-bus-access", "type-twin/", "device-swap-mode-1", "free-running-world-under-race-detector", "worlds-without-io-device", "host-dma-pokes", "twin-without-notification-handlers", "run-resumed-after-host-patched-the-halt"],
    "C12": ["unsupported-opcode-consumed", "malformed-request@", "run-returned-halted", "callback-copies-cpu", "write-watch-device-posts-NMI", "hostile-worlds-running-concurrently"],
    "C13": ["cancelled/", "watcher-held-in-Err-call-3", "run-calls-goroutine-accounted", "resumed-after-cancel", "runs-on-a-reused-cpu", "run-on-a-copy-taken-during-run"],
    "C18": ["breakpoint-after-call", "console-write-fault", "interrupt-inside-machine", "warning-path", "cancel-mid-run", "console-is-a-real-file", "second-program-step-driven", "machines-running-concurrently", "machine-with-default-console-and-logger", "host-continues-on-a-copy-of-the-cpu", "console-is-a-func-adapter"],
}

RULES = {}   # filled from rules.json (text per property: how cases are generated, what is non-trivial)
COMPONENTS = {
    "real_code": ["z80.CPU: Step, Run, processInterrupt, every instruction handler (from the repository's working tree)",
                  "z80.DumbMemory / MapMemory / DumbIO where a scenario selects them", "internal/tinycpm Memory and IO (C18)",
                  "package context and the Go scheduler inside the synctest bubble (C13)"],
    "simulated": ["64 KiB memory and 256-port devices (recording, tick source)", "interrupt controller / interrupting devices",
                  "host program calling Step/Run, editing breakpoints, crashing and restoring CPUs", "console writer and warning logger (C18)",
                  "clock: bus-access tick; testing/synctest fake clock for context deadlines (C13)"],
    "side_car_outside_family": ["Go race detector on free-running goroutines (C10 d, C13 5, C18 concurrent machines, C12 concurrent hostile worlds in short-lived processes): runtime monitoring, not schedule-replayable",
                                "C13 'reuse' scenarios (one CPU object, late cancel of the previous Run's context): the stale watcher's schedule is the Go scheduler's, the oracle is schedule independent"],
}


def die(msg, code=2):
    print("HARNESS-TROUBLE: " + msg, flush=True)
    sys.exit(code)


def prepare_module():
    """go.mod of the simulator points at the repository under test."""
    gomod = os.path.join(SIM, "go.mod")
    want = ("module github.com/koron-go/z80/verifsim\n\ngo 1.26.8\n\nrequire github.com/koron-go/z80 v0.0.0\n\n"
            "replace github.com/koron-go/z80 => %s\n" % REPO)
    modfile = gomod
    if REPO != "/repo":
        # scratch target (sensitivity self-test only): separate modfile, /verif/sim/go.mod untouched
        modfile = os.path.join(BIN, ALT + ".mod")
        os.makedirs(BIN, exist_ok=True)
    cur = open(modfile).read() if os.path.exists(modfile) else ""
    if cur != want:
        open(modfile, "w").write(want)
    shutil.copyfile(os.path.join(REPO, "go.sum"), modfile[:-4] + ".sum")
    return modfile


def build(race):
    os.makedirs(BIN, exist_ok=True)
    modfile = prepare_module()
    tag = ALT if REPO != "/repo" else "repo"
    out = os.path.join(BIN, "sim-%s%s.test" % (tag, "-race" if race else ""))
    cmd = [GO, "test", "-c", "-tags", "verif", "-o", out]
    if modfile != os.path.join(SIM, "go.mod"):
        cmd += ["-modfile", modfile]
    if race:
        cmd += ["-race"]
    cmd += ["./simtest"]
    t0 = time.time()
    p = subprocess.run(cmd, cwd=SIM, env=ENV, stdout=subprocess.PIPE, stderr=subprocess.STDOUT, text=True)
    if p.returncode != 0:
        print(p.stdout)
        die("build failed (%s)" % " ".join(cmd))
    return out, time.time() - t0


def load_known():
    known, fixed = {}, []
    path = os.path.join(VERIF, "KNOWN_FINDINGS.txt")
    if os.path.exists(path):
        for line in open(path):
            line = line.strip()
            m = re.match(r"known:\s+property=(\S+)\s+sig=(\S+)\s+(.*)", line)
            if m:
                known[(m.group(1), m.group(2))] = m.group(3)
            elif line.startswith("fixed:"):
                fixed.append(line)
    return known, fixed


CHILDREN = []   # every worker process still running (killed if this process is told to stop)
WORKDIRS = []   # scratch directories of this process


def _stop_children(signum=None, frame=None):
    for p in list(CHILDREN):
        try:
            p.kill()
        except Exception:
            pass
    if signum is not None:
        for d in WORKDIRS:
            shutil.rmtree(d, ignore_errors=True)
        sys.stderr.write("HARNESS-TROUBLE: interrupted by signal %s\n" % signum)
        os._exit(2)


def run_workers(binary, prop, tier, seed, nshards, count, budget, extra_env=None, tmpdir=None, shard_base=0, maxpar=None):
    """Runs shards shard_base .. shard_base+nshards-1, at most maxpar processes at a time (all shards are
    always run: which scenario families exist depends on the shard number, not on the machine)."""
    maxpar = max(1, maxpar or nshards)
    waves = (nshards + maxpar - 1) // maxpar
    per_budget = budget if tier.startswith("quick") else max(10, budget // waves)
    pending = list(range(shard_base, shard_base + nshards))
    running, finished = [], []

    def output(out):
        with open(out + ".log", errors="replace") as f:
            f.seek(0, 2)
            n = f.tell()
            if n <= 4_000_000:
                f.seek(0)
                return f.read()
            # very long output (a chatty library): head and tail are what matters
            f.seek(0)
            head = f.read(2_000_000)
            f.seek(n - 2_000_000)
            return head + "\n...\n" + f.read()

    while pending or running:
        while pending and len(running) < maxpar:
            sh = pending.pop(0)
            out = os.path.join(tmpdir, "w%d.json" % sh)
            e = dict(ENV)
            e.update(VERIF_PROP=prop, VERIF_TIER=tier, VERIF_SEED=str(seed), VERIF_SHARD=str(sh), VERIF_NSHARDS=str(max(nshards, 16)),
                     VERIF_COUNT=str(count), VERIF_BUDGET_S=str(per_budget), VERIF_OUT=out, VERIF_REPLAY_DIR=REPLAYS)
            if prop == "C12":
                e["VERIF_JOURNAL"] = out + ".journal"
            if extra_env:
                e.update(extra_env)
            # output goes to a file, not a pipe: a library that writes a lot to the standard streams must not be
            # able to block inside a Step because nobody is draining the pipe (that would look like a hang)
            lf = open(out + ".log", "w")
            p = subprocess.Popen([binary, "-test.run", "^TestWorker$", "-test.timeout", "0", "-test.count", "1"], env=e, cwd=tmpdir,
                                 stdout=lf, stderr=subprocess.STDOUT)
            lf.close()
            CHILDREN.append(p)
            running.append((sh, p, out, time.time() + per_budget * 3 + 300))
        time.sleep(0.05)
        for item in list(running):
            sh, p, out, deadline = item
            if p.poll() is not None:
                running.remove(item)
                CHILDREN.remove(p)
                finished.append((sh, p, out, False))
            elif time.time() > deadline:
                p.kill()
                p.wait()
                running.remove(item)
                CHILDREN.remove(p)
                finished.append((sh, p, out, True))
    results, trouble, races = [], [], []
    for sh, p, out, timed_out in sorted(finished, key=lambda x: x[0]):
        so = output(out)
        if timed_out:
            trouble.append("worker %d: watchdog expired\n%s" % (sh, so[-2000:]))
            continue
        if "WARNING: DATA RACE" in so:
            # race side-car (runtime monitoring, outside the family): the detector's report is the verdict.
            # Its replay file is the stress configuration of this shard; it is not schedule-replayable.
            path = os.path.join(REPLAYS, "%s-race-%d-%d.json" % (prop, seed, sh))
            i = so.index("WARNING: DATA RACE")
            json.dump({"property": prop, "oracle": "race-detector", "race_binary": True, "race_sidecar": True,
                       "worker": {"tier": tier, "seed": seed, "shard": sh, "nshards": nshards, "count": count, "budget": budget},
                       "observed": so[i:i + 6000]}, open(path, "w"), indent=1)
            races.append({"oracle": "race-detector", "detail": so[i:i + 1500], "replay": path, "race": True, "sidecar": True})
            continue
        jpath = out + ".journal"
        if p.returncode != 0 and "fatal error:" in so and os.path.exists(jpath) and crash_in_library(so):
            # the process died of an unrecoverable runtime error inside library code (C12: "no input makes the
            # emulator panic or hang"): the journalled scenario is the replay file
            path = os.path.join(REPLAYS, "%s-crash-%d-%d.json" % (prop, seed, sh))
            shutil.copyfile(jpath, path)
            i = so.index("fatal error:")
            races.append({"oracle": "fatal-crash", "detail": so[i:i + 600].replace("\n", " | "), "replay": path, "race": "-race" in binary, "crash": True})
            continue
        if p.returncode != 0 or not os.path.exists(out):
            trouble.append("worker %d: exit %s\n%s" % (sh, p.returncode, so[-4000:]))
            continue
        results.append(json.load(open(out)))
    if races:
        results.append({"evaluations": 0, "steps": 0, "ticks": 0, "wall_s": 0, "violations": races, "race": True})
    return results, trouble


def replay_once(binary, prop, path, tmpdir):
    out = os.path.join(tmpdir, "replay-%d.json" % (time.time_ns()))
    e = dict(ENV)
    e.update(VERIF_PROP=prop, VERIF_REPLAY=path, VERIF_OUT=out)
    p = subprocess.run([binary, "-test.run", "^TestWorker$", "-test.timeout", "0"], env=e, cwd=tmpdir, stdout=subprocess.PIPE, stderr=subprocess.STDOUT, text=True)
    if p.returncode != 0 or not os.path.exists(out):
        return None, p.stdout
    return json.load(open(out)), p.stdout


def replay_sidecar(binary, path, tmpdir):
    rep = json.load(open(path))
    w = rep["worker"]
    d = os.path.join(tmpdir, "sidecar-%d" % time.time_ns())
    os.makedirs(d)
    e = dict(ENV)
    e.update(VERIF_PROP=rep["property"], VERIF_TIER=w["tier"], VERIF_SEED=str(w["seed"]), VERIF_SHARD=str(w["shard"]), VERIF_NSHARDS=str(w["nshards"]),
             VERIF_COUNT=str(w["count"]), VERIF_BUDGET_S=str(w["budget"]), VERIF_OUT=os.path.join(d, "o.json"), VERIF_REPLAY_DIR=d)
    p = subprocess.run([binary, "-test.run", "^TestWorker$", "-test.timeout", "0"], env=e, cwd=d, stdout=subprocess.PIPE, stderr=subprocess.STDOUT, text=True)
    return "WARNING: DATA RACE" in p.stdout


def race_in_library(report):
    """True when one of the two conflicting accesses of a race report happens IN library code: the top
    frame of an access stack ("Write at ... by goroutine" / "Previous read at ...") is a function of
    github.com/koron-go/z80 itself (not of the simulator, and not merely somewhere down the stack)."""
    lines = report.splitlines()
    for i, l in enumerate(lines):
        if re.match(r"\s*(Previous )?(Write|Read|write|read|Atomic write|Atomic read|atomic write|atomic read) at 0x", l.strip(), 0) or re.match(r"^(Previous )?(Write|Read|write|read) at ", l.strip()):
            for nxt in lines[i + 1:i + 3]:
                f = nxt.strip()
                if f.startswith("github.com/koron-go/z80/verifsim"):
                    break
                if f.startswith("github.com/koron-go/z80.") or f.startswith("github.com/koron-go/z80/internal/"):
                    return True
                if f:
                    break
    return False


def crash_in_library(dump):
    """True when the goroutine that died was executing library code: the first non-runtime frame of the
    first goroutine in the dump (the running one) belongs to github.com/koron-go/z80 itself."""
    # crashes the machine can cause on any code (memory or threads exhausted) are the sandbox's trouble, never
    # the library's: only kinds of fatal error that code itself brings about are attributed
    first = dump[dump.find("fatal error:"):].splitlines()[0] if "fatal error:" in dump else ""
    if re.search(r"out of memory|cannot allocate|newosproc|thread exhaustion|pthread_create|failed to create new OS thread|mmap|resource temporarily", first + dump[:400]):
        return False
    m = re.search(r"\ngoroutine \d+ (?:gp=\S+ m=\S+(?: mp=\S+)? )?\[running[^\]]*\]:\n", dump)
    if not m:
        return False
    if "stack overflow" in first or "stack exceeds" in dump[:600]:
        # whoever happened to need more stack when the limit was reached is not the culprit (it may well be a
        # device callback of the harness at the leaf): the recursion is. The dump lists the top and bottom
        # frames of the running goroutine; it is the library's if those are overwhelmingly library frames.
        sect = dump[m.end():].split("\n\n")[0]
        lib = len(re.findall(r"^github\.com/koron-go/z80(?:\.|/internal/)", sect, re.M))
        har = len(re.findall(r"^github\.com/koron-go/z80/verifsim", sect, re.M))
        return lib >= 20 and lib > 5 * har
    for l in dump[m.end():].splitlines():
        f = l.strip()
        if not f or l.startswith("\t") or f.startswith("runtime.") or f.startswith("internal/") or f.startswith("panic(") or f.startswith("..."):
            continue
        if f.startswith("github.com/koron-go/z80/verifsim"):
            return False
        return f.startswith("github.com/koron-go/z80.") or f.startswith("github.com/koron-go/z80/internal/")
    return False


def merge(results):
    m = dict(evaluations=0, steps=0, ticks=0, sim_ns=0, fired={}, classes={}, known={}, known_n={}, violations=[], samples=[],
             nontrivial=set(), points={}, truncated=False, worker_wall=[])
    for r in results:
        m["evaluations"] += r["evaluations"]
        m["steps"] += r["steps"]
        m["ticks"] += r["ticks"]
        if r.get("race") and r["evaluations"]:
            m["race_evaluations"] = m.get("race_evaluations", 0) + r["evaluations"]
        m["sim_ns"] += r.get("sim_ns", 0)
        for k, v in (r.get("fired") or {}).items():
            m["fired"][k] = m["fired"].get(k, 0) + v
        for k, v in (r.get("classes") or {}).items():
            m["classes"][k] = m["classes"].get(k, 0) + v
        for k, v in (r.get("known") or {}).items():
            m["known"].setdefault(k, v)
        for k, v in (r.get("known_n") or {}).items():
            m["known_n"][k] = m["known_n"].get(k, 0) + v
        for v in r.get("violations") or []:
            v = dict(v)
            if "race" not in v:
                v["race"] = r.get("race", False)
            m["violations"].append(v)
        m["samples"] += r.get("samples") or []
        m["nontrivial"].update(r.get("nontrivial_fingerprints") or [])
        m["points"].update(r.get("nontrivial_points") or {})
        m["truncated"] = m["truncated"] or r.get("nontrivial_truncated", False)
        m["worker_wall"].append(r["wall_s"])
    return m


def class_kinds(classes):
    out = {}
    for k in classes:
        p = k.split("/")[0]
        out[p] = out.get(p, 0) + 1
    return dict(sorted(out.items()))


def check(prop, tier):
    if prop not in PROPS:
        die("unknown property " + prop)
    cfg = PROPS[prop]
    seed = int(os.environ.get("VERIF_SEED", "1") or "1")
    t0 = time.time()
    os.makedirs(EVID, exist_ok=True)
    os.makedirs(REPLAYS, exist_ok=True)
    ev_path = os.path.join(EVID, prop + ".json")
    if os.path.exists(ev_path):
        os.remove(ev_path)
    tmpdir = os.path.join(BIN, "work-%s-%s-%d" % (prop, tier, os.getpid()))
    WORKDIRS.append(tmpdir)
    os.makedirs(tmpdir, exist_ok=True)
    try:
        return _check(prop, tier, cfg, seed, t0, ev_path, tmpdir)
    finally:
        shutil.rmtree(tmpdir, ignore_errors=True)


def _check(prop, tier, cfg, seed, t0, ev_path, tmpdir):
    ncpu = int(os.environ.get("VERIF_WORKERS", "0")) or min(16, os.cpu_count() or 1)
    binary, bt = build(False)
    race_binary = None
    if cfg["race"]:
        race_binary, bt2 = build(True)
        bt += bt2
    if tier == "quick":
        count, budget = cfg["quick_count"], cfg["quick_budget"]
    else:
        count, budget = 10 ** 9, int(os.environ.get("VERIF_BUDGET_S", cfg["thorough_budget"]))
    if os.environ.get("VERIF_COUNT"):
        count = int(os.environ["VERIF_COUNT"])
    if tier == "quick" and os.environ.get("VERIF_BUDGET_S"):
        budget = int(os.environ["VERIF_BUDGET_S"])

    results, trouble = [], []
    if race_binary:
        # plain workers on 3/4 of the cores, race-binary workers (slower) on the rest, distinct shard numbers
        n_plain = ncpu                 # at most this many plain workers at a time (all 16 shards always run)
        n_race = max(1, ncpu // 4)     # plus the (slower) race-binary workers of the side-car
        d1 = os.path.join(tmpdir, "plain")
        d2 = os.path.join(tmpdir, "race")
        os.makedirs(d1)
        os.makedirs(d2)
        import threading
        box = {}

        def go(key, *a, **k):
            box[key] = run_workers(*a, **k)

        def go_race():
            # many short-lived race-binary processes instead of a few long ones: state that the
            # library initialises lazily exists once per process, so each fresh process is a new chance
            res, tr = [], []
            rounds = 6 if tier == "quick" else 10 ** 6
            per = max(1, count // 4 // 6) if tier == "quick" else 40
            t_end = time.time() + budget
            for rnd in range(rounds):
                if time.time() > t_end:
                    break
                dd = os.path.join(d2, "r%d" % rnd)
                os.makedirs(dd)
                r1, t1 = run_workers(race_binary, prop, tier + "-race", seed + 1000003, n_race, per, max(5, int(t_end - time.time())), tmpdir=dd, shard_base=rnd * n_race)
                res += r1
                tr += t1
                box["race_rounds"] = rnd + 1
                if t1 or any(x.get("violations") for x in r1):
                    break
            box["race"] = (res, tr)
        th = threading.Thread(target=go_race)
        th.start()
        go("plain", binary, prop, tier, seed, 16, count, budget, tmpdir=d1, maxpar=n_plain)
        th.join()
        for key in ("plain", "race"):
            results += box[key][0]
            trouble += box[key][1]
        race_rounds = box.get("race_rounds", 0)
        if tier == "quick" and race_rounds < 6 and not trouble and not any(x.get("violations") for x in box["race"][0]):
            print("RACE-ROUNDS property=%s: the race side-car ran %d of its 6 rounds of short-lived processes within the time budget (machine too busy?)" % (prop, race_rounds))
    else:
        r, tr = run_workers(binary, prop, tier, seed, 16, count, budget, tmpdir=tmpdir, maxpar=ncpu)
        results += r
        trouble += tr
        race_rounds = None
    if trouble:
        for t in trouble:
            print(t)
        die("%d worker(s) failed" % len(trouble))

    m = merge(results)
    known, _fixed = load_known()
    budget_stops = sum(1 for r in results if r.get("stopped_by") == "budget")
    if tier == "quick" and budget_stops:
        # the quick tier is a fixed set of scenarios; a worker that ran out of time did not execute all of its share
        print("BUDGET-STOP property=%s: %d of %d workers stopped at the time budget before finishing their fixed scenario count (machine too busy?); this run explored less than a quick run normally does" % (prop, budget_stops, len(results)))

    # confirm every violation by replaying its minimised file in a fresh process
    confirmed, unconfirmed = [], []
    for v in m["violations"]:
        b = race_binary if v.get("race") else binary
        if "of real time" in v.get("detail", "") and any(c["oracle"] == v["oracle"] for c in confirmed):
            # each replay of a real-time watchdog verdict costs the whole watchdog period: one confirmed
            # instance per oracle is enough, the others are listed with their replay files
            confirmed.append(dict(v, detail=v["detail"] + "\n  (not replayed: another violation of the same oracle was confirmed already)"))
            continue
        if v.get("sidecar"):
            again = False
            for _ in range(4):
                if replay_sidecar(b, v["replay"], tmpdir):
                    again = True
                    break
            # A race-detector report has no false positives. If the report names code of the library
            # under test it is accepted even when the (uncontrolled) schedule does not reproduce it.
            lib = race_in_library(v["detail"] + "\n" + json.load(open(v["replay"])).get("observed", ""))
            if again or lib:
                if not again:
                    v = dict(v, detail=v["detail"] + "\n  (not reproduced in 4 further runs of the stress configuration; accepted: the detector's report is sound and names library code)")
                confirmed.append(v)
            else:
                unconfirmed.append((v, "race detector did not report again on further runs of the same stress configuration and the report names no library code"))
            continue
        rr, so = replay_once(b, prop, v["replay"], tmpdir)
        if v.get("crash"):
            again = rr is None and "fatal error:" in (so or "")
            for _ in range(4):
                if again:
                    break
                rr, so = replay_once(b, prop, v["replay"], tmpdir)
                again = rr is None and "fatal error:" in (so or "")
            if not again:
                # the dump already showed the process dying IN library code (crash_in_library); a crash that needs
                # a particular interleaving of concurrent worlds need not repeat
                v = dict(v, detail=v["detail"] + " | (did not crash again in 5 fresh processes; accepted: the dump names library code as the faulting frame)")
            confirmed.append(v)
            continue
        tries = 1
        while not (rr is not None and rr.get("reproduced")) and v["oracle"] in NOT_OWNED and tries < 6:
            # scenarios whose goroutine schedule the simulator does not own (labelled side-cars):
            # the replay file is the stress scenario; it is re-executed a few times
            rr, so = replay_once(b, prop, v["replay"], tmpdir)
            tries += 1
        if rr is not None and rr.get("reproduced"):
            confirmed.append(v)
        else:
            unconfirmed.append((v, so))

    wall = time.time() - t0
    nontrivial = len(m["nontrivial"])
    if m["points"]:
        # enumerating properties: distinct (scenario, injection point) pairs in which the event was served
        nontrivial = sum(m["points"].values())
    hours = max(wall, 1e-9) / 3600.0
    fired_total = sum(m["fired"].values())
    rule = RULES.get(prop, "")
    if m["truncated"]:
        rule += " (fingerprint sets were capped at 40000 per worker: distinct_nontrivial is a lower bound)"
    samples = []
    for s in m["samples"][:3]:
        samples.append(s)
    evidence = {
        "property_id": prop,
        "tier": tier,
        "seed": seed,
        "level": cfg["level"],
        "coverage": {
            "evaluations": m["evaluations"],
            "distinct_nontrivial": nontrivial,
            "rule": rule,
            "samples": samples,
            "exhaustive": False,
            "simulated_steps": m["steps"],
            "simulated_ticks_bus_accesses": m["ticks"],
            "simulated_fake_clock_seconds": m["sim_ns"] / 1e9,
            "runs_per_hour": int(m["evaluations"] / hours),
            "seeds": [seed] + ([seed + 1000003] if race_binary else []),
            "worker_processes": len(results),
            "faults_and_events_fired": dict(sorted(m["fired"].items())),
            "faults_and_events_fired_total": fired_total,
            "distinct_schedule_classes": len(m["classes"]),
            "distinct_classes_by_kind": class_kinds(m["classes"]),
            "schedule_classes_top": dict(sorted(m["classes"].items(), key=lambda kv: -kv[1])[:40]),
            "known_findings_seen": m["known_n"],
            "evaluations_in_race_binary": m.get("race_evaluations", 0),
            "components": COMPONENTS,
            "workers_stopped_by_time_budget": budget_stops,
            "race_sidecar_rounds_run": race_rounds,
            "build_s": round(bt, 2),
        },
        "assumptions": ASSUMPTIONS.get(prop, []),
        "wall_s": round(wall, 2),
        "violations": len(confirmed),
    }
    with open(ev_path, "w") as f:
        json.dump(evidence, f, indent=1)

    print("property=%s tier=%s seed=%d evaluations=%d distinct_nontrivial=%d steps=%d ticks=%d fired=%d classes=%d wall=%.1fs" % (
        prop, tier, seed, m["evaluations"], nontrivial, m["steps"], m["ticks"], fired_total, len(m["classes"]), wall), flush=True)
    rc = 0
    for probe in REQUIRED_PROBES.get(prop, []):
        if not any(k.startswith(probe) and v > 0 for k, v in m["fired"].items()) and tier == "quick" and not os.environ.get("VERIF_COUNT"):
            # reach probe stuck at zero: part of this check has gone vacuous on this tree (e.g. the library's
            # warning text changed); said loudly, but it is not a verdict about the property
            print("PROBE-ZERO property=%s probe=%s: this run never reached the situation the probe counts; the oracles behind it decided nothing" % (prop, probe))
    for sig, example in sorted(m["known"].items()):
        if (prop, sig) in known:
            print("KNOWN-FINDING: property=%s %s [%s] seen %d times, e.g. %s" % (prop, known[(prop, sig)], sig, m["known_n"].get(sig, 0), example))
        else:
            # the executor classified something as a listed finding that the committed file does not list
            die("finding signature %s not listed in KNOWN_FINDINGS.txt" % sig)
    if unconfirmed:
        for v, so in unconfirmed:
            print("UNCONFIRMED (fresh-process replay did not fail the same way): %s %s\n%s" % (v["oracle"], v["replay"], (so or "")[-1500:]))
        if not confirmed:
            die("violation did not reproduce from its replay file")
    shown = set()
    for v in confirmed:
        rc = 1
        if v["oracle"] in shown and len(shown) >= 1 and sum(1 for _ in shown) >= 1 and v["oracle"] in shown:
            continue
        shown.add(v["oracle"])
        print("VIOLATION property=%s replay=%s" % (prop, v["replay"]))
        print("  oracle=%s %s" % (v["oracle"], v["detail"][:900]))
    if len(confirmed) > len(shown):
        print("  (%d further confirmed violations of the same oracles; replay files under %s)" % (len(confirmed) - len(shown), REPLAYS))
    return rc


ASSUMPTIONS = {}


def load_texts():
    p = os.path.join(VERIF, "rules.json")
    if os.path.exists(p):
        d = json.load(open(p))
        RULES.update(d.get("rules", {}))
        ASSUMPTIONS.update(d.get("assumptions", {}))


def replay(path):
    rep = json.load(open(path))
    prop = rep["property"]
    race = rep.get("race_binary", False)
    binary, _ = build(race)
    tmpdir = os.path.join(BIN, "work-replay-%d" % os.getpid())
    os.makedirs(tmpdir, exist_ok=True)
    if rep.get("race_sidecar"):
        try:
            again = replay_sidecar(binary, os.path.abspath(path), tmpdir)
        finally:
            shutil.rmtree(tmpdir, ignore_errors=True)
        if again:
            print("VIOLATION property=%s replay=%s" % (prop, path))
            return 1
        print("race detector stayed quiet on this tree")
        return 0
    try:
        rr, so = replay_once(binary, prop, os.path.abspath(path), tmpdir)
        tries = 1
        while rr is not None and not rr.get("reproduced") and rep.get("oracle") in NOT_OWNED and tries < 6:
            rr, so = replay_once(binary, prop, os.path.abspath(path), tmpdir)
            tries += 1
    finally:
        shutil.rmtree(tmpdir, ignore_errors=True)
    if rr is None and rep.get("oracle") == "fatal-crash" and "fatal error:" in (so or ""):
        print("the scenario crashed the fresh process again:")
        print(so[so.index("fatal error:"):][:800])
        print("VIOLATION property=%s replay=%s" % (prop, path))
        return 1
    if rr is None:
        print(so)
        die("replay could not run")
    print(json.dumps(rr, indent=1))
    if rr.get("reproduced"):
        print("VIOLATION property=%s replay=%s" % (prop, path))
        return 1
    if rr.get("oracle"):
        print("a different oracle failed: " + rr["oracle"])
        return 1
    print("replay did not fail on this tree")
    return 0


def selftest_determinism(ids):
    """Same seed => same scenarios, same verdicts, same step/tick counts: across
    repeated processes and GOMAXPROCS values. Compares the per-worker digest."""
    binary, _ = build(False)
    bad = 0
    for prop in ids or sorted(PROPS):
        digests = {}
        pbad = 0
        for gmp in ("1", "4", "16"):
            for rep in range(2):
                tmpdir = os.path.join(BIN, "work-det-%s-%d" % (prop, os.getpid()))
                shutil.rmtree(tmpdir, ignore_errors=True)
                os.makedirs(tmpdir)
                cnt = max(5, PROPS[prop]["quick_count"] // 20)
                res, tr = run_workers(binary, prop, "quick", 7, 16, cnt, 120, extra_env=dict(GOMAXPROCS=gmp, VERIF_TRACE="1"), tmpdir=tmpdir)
                shutil.rmtree(tmpdir, ignore_errors=True)
                if tr:
                    print("\n".join(tr))
                    die("worker failed in determinism self-test")
                for r in res:
                    key = r["shard"]
                    val = (r["log_digest"], r["evaluations"], r["steps"], r["ticks"])
                    if r["stopped_by"] != "count":
                        die("determinism self-test worker stopped by %s" % r["stopped_by"])
                    if key in digests and digests[key] != val:
                        print("NONDETERMINISM property=%s shard=%d GOMAXPROCS=%s: %s vs %s" % (prop, key, gmp, digests[key], val))
                        bad += 1
                        pbad += 1
                    digests.setdefault(key, val)
        print("determinism %s: %d shard digests x 6 executions %s" % (prop, len(digests), "OK" if not pbad else "MISMATCH"), flush=True)
    return 1 if bad else 0


def main():
    import signal
    signal.signal(signal.SIGTERM, _stop_children)
    signal.signal(signal.SIGINT, _stop_children)
    import atexit
    atexit.register(_stop_children)
    load_texts()
    if len(sys.argv) < 2:
        die(__doc__)
    cmd = sys.argv[1]
    if cmd == "setup":
        _, t1 = build(False)
        _, t2 = build(True)
        print("built simulator binaries: plain %.1fs, race %.1fs" % (t1, t2))
        return 0
    if cmd == "check":
        return check(sys.argv[2], sys.argv[3] if len(sys.argv) > 3 else os.environ.get("VERIF_TIER", "quick"))
    if cmd == "replay":
        return replay(sys.argv[2])
    if cmd == "selftest-determinism":
        return selftest_determinism(sys.argv[2:])
    die("unknown command " + cmd)


if __name__ == "__main__":
    sys.exit(main())
