// Package simtest is the entry point of the simulator. It is a test binary
// because testing/synctest (fake clock, quiescence detection) needs a
// *testing.T; the orchestrator (/verif/run.py) starts it as worker processes.
package simtest

import (
	"encoding/json"
	"fmt"
	"log"
	"os"
	"sort"
	"strconv"
	"strings"
	"testing"
	"time"

	"github.com/koron-go/z80/verifsim/props"
	"github.com/koron-go/z80/verifsim/world"
)

func envInt(name string, def int) int {
	if s := os.Getenv(name); s != "" {
		if v, err := strconv.Atoi(s); err == nil {
			return v
		}
	}
	return def
}

// Result is what a worker reports.
type Result struct {
	Property    string            `json:"property"`
	Seed        uint64            `json:"seed"`
	Shard       int               `json:"shard"`
	Race        bool              `json:"race"`
	Evaluations uint64            `json:"evaluations"`
	NonTrivial  []string          `json:"nontrivial_fingerprints"`
	NTTruncated bool              `json:"nontrivial_truncated"`
	NTPoints    map[string]uint64 `json:"nontrivial_points"` // enumerating properties: scenario fingerprint -> distinct non-trivial injection points
	Steps       uint64            `json:"steps"`
	Ticks       uint64            `json:"ticks"`
	SimNS       uint64            `json:"sim_ns"`
	Fired       map[string]uint64 `json:"fired"`
	Classes     map[string]uint64 `json:"classes"`
	Known       map[string]string `json:"known"`
	KnownN      map[string]uint64 `json:"known_n"`
	Violations  []ViolationRec    `json:"violations"`
	Samples     []json.RawMessage `json:"samples"`
	WallS       float64           `json:"wall_s"`
	StoppedBy   string            `json:"stopped_by"`
	LogDigest   string            `json:"log_digest"`
}

// ViolationRec is one reported violation.
type ViolationRec struct {
	Oracle string `json:"oracle"`
	Detail string `json:"detail"`
	Replay string `json:"replay"`
}

func propLabel(id string) uint64 {
	var h uint64
	for _, c := range id {
		h = h*131 + uint64(c)
	}
	return h
}

// TestWorker runs one shard of one property.
func TestWorker(t *testing.T) {
	id := os.Getenv("VERIF_PROP")
	if id == "" {
		t.Skip("VERIF_PROP not set: not started by the orchestrator")
	}
	p := props.Get(id)
	if p == nil {
		fmt.Fprintf(os.Stderr, "unknown property %s\n", id)
		os.Exit(2)
	}
	env := props.NewEnv()
	env.T = t
	env.Race = raceEnabled
	log.SetOutput(env.LogBuf)
	log.SetFlags(0)

	if rp := os.Getenv("VERIF_REPLAY"); rp != "" {
		replay(p, rp, env)
		return
	}

	seed := uint64(envInt("VERIF_SEED", 1))
	tier := os.Getenv("VERIF_TIER")
	if tier == "" {
		tier = "quick"
	}
	shard := envInt("VERIF_SHARD", 0)
	nshards := envInt("VERIF_NSHARDS", 1)
	count := envInt("VERIF_COUNT", 1000)
	budget := time.Duration(envInt("VERIF_BUDGET_S", 60)) * time.Second
	out := os.Getenv("VERIF_OUT")
	replayDir := os.Getenv("VERIF_REPLAY_DIR")
	maxViol := envInt("VERIF_MAX_VIOLATIONS", 2)
	journal := os.Getenv("VERIF_JOURNAL")
	trace := os.Getenv("VERIF_TRACE") != "" // determinism gate: digest of every scenario + verdict

	res := &Result{Property: id, Seed: seed, Shard: shard, Race: raceEnabled, NTPoints: map[string]uint64{}}
	seen := map[uint64]struct{}{}
	start := time.Now()
	var digest uint64
	res.StoppedBy = "count"
	for run := 0; run < count; run++ {
		if time.Since(start) > budget {
			res.StoppedBy = "budget"
			break
		}
		r := world.Derive(seed, propLabel(id), uint64(shard), uint64(run))
		sc := p.Gen(r, tier, shard+run*nshards)
		env.NonTrivial = false
		env.ExtraEvals, env.NTPoints = 0, 0
		env.LogBuf.Reset()
		if journal != "" {
			// a crash that cannot be recovered (stack overflow, runtime fatal error) takes the process down:
			// the scenario about to run is left behind as the replay file
			jb, _ := json.Marshal(sc)
			rep := props.Replay{Property: id, Seed: seed, Shard: shard, Run: run, Oracle: "fatal-crash", Observed: "the worker process died while executing this scenario", Scenario: jb, Race: raceEnabled}
			rb, _ := json.Marshal(rep)
			os.WriteFile(journal, rb, 0o644)
		}
		v := props.SafeExec(p, sc, env)
		res.Evaluations += 1 + env.ExtraEvals
		if env.NTPoints > 0 && len(res.NTPoints) < 40000 {
			res.NTPoints[strconv.FormatUint(props.Fingerprint(sc), 16)] = env.NTPoints
		}
		if trace {
			fp := props.Fingerprint(sc)
			digest = world.Mix64(digest, fp)
			digest = world.Mix64(digest, env.Steps)
			digest = world.Mix64(digest, env.Ticks)
			var fs uint64
			for _, v := range env.Fired {
				fs += v
			}
			digest = world.Mix64(digest, fs)
			if v != nil {
				digest = world.Mix64(digest, 1)
			}
		}
		if env.NonTrivial && len(seen) < 40000 {
			seen[props.Fingerprint(sc)] = struct{}{}
		} else if env.NonTrivial {
			res.NTTruncated = true
		}
		if len(res.Samples) < 2 && (env.NonTrivial || run > count/2) {
			b, _ := json.Marshal(sc)
			if len(b) < 6000 {
				res.Samples = append(res.Samples, b)
			}
		}
		if v != nil && v.Oracle == "harness" {
			// the harness could not build or run its own scenario: trouble (exit 2), never a violation
			fmt.Fprintf(os.Stderr, "HARNESS: %s (property %s seed %d shard %d run %d)\n", v.Detail, id, seed, shard, run)
			os.Exit(2)
		}
		if v != nil {
			orig, _ := json.Marshal(sc)
			min, mv, n := props.Minimise(p, sc, v, env, 2000)
			mb, _ := json.Marshal(min)
			rep := props.Replay{Property: id, Seed: seed, Shard: shard, Run: run, Oracle: mv.Oracle, Observed: mv.Detail, Scenario: mb, Original: orig, ShrinkRan: n, Race: raceEnabled}
			path := fmt.Sprintf("%s/%s-%d-%d-%d.json", replayDir, id, seed, shard, run)
			rb, _ := json.MarshalIndent(rep, "", " ")
			if err := os.WriteFile(path, rb, 0o644); err != nil {
				fmt.Fprintf(os.Stderr, "cannot write replay: %v\n", err)
				os.Exit(2)
			}
			res.Violations = append(res.Violations, ViolationRec{mv.Oracle, mv.Detail, path})
			if len(res.Violations) >= maxViol || strings.Contains(mv.Detail, "of real time") {
				// (after a real-time watchdog verdict a goroutine is still spinning in this process: stop here)
				res.StoppedBy = "violations"
				break
			}
		}
	}
	res.WallS = time.Since(start).Seconds()
	res.Steps, res.Ticks, res.SimNS = env.Steps, env.Ticks, env.SimNS
	res.Fired, res.Classes, res.Known, res.KnownN = env.Fired, env.Classes, env.Known, env.KnownN
	for k := range seen {
		res.NonTrivial = append(res.NonTrivial, strconv.FormatUint(k, 16))
	}
	sort.Strings(res.NonTrivial)
	res.LogDigest = strconv.FormatUint(digest, 16)
	b, _ := json.Marshal(res)
	if out == "" {
		os.Stdout.Write(b)
		return
	}
	if err := os.WriteFile(out, b, 0o644); err != nil {
		fmt.Fprintf(os.Stderr, "cannot write result: %v\n", err)
		os.Exit(2)
	}
}

// replay re-executes the minimised scenario of a replay file. Exit status
// (through the orchestrator): REPLAY-VIOLATION line when it fails again.
func replay(p props.Prop, path string, env *props.Env) {
	b, err := os.ReadFile(path)
	if err != nil {
		fmt.Fprintf(os.Stderr, "replay: %v\n", err)
		os.Exit(2)
	}
	var rep props.Replay
	if err := json.Unmarshal(b, &rep); err != nil {
		fmt.Fprintf(os.Stderr, "replay: %v\n", err)
		os.Exit(2)
	}
	sc := p.New()
	if err := json.Unmarshal(rep.Scenario, sc); err != nil {
		fmt.Fprintf(os.Stderr, "replay: %v\n", err)
		os.Exit(2)
	}
	v := props.SafeExec(p, sc, env)
	out := map[string]interface{}{"property": rep.Property, "reproduced": false, "known": env.Known}
	if v != nil {
		out["reproduced"] = v.Oracle == rep.Oracle
		out["oracle"] = v.Oracle
		out["detail"] = v.Detail
		out["same_detail"] = v.Detail == rep.Observed
	}
	ob, _ := json.Marshal(out)
	if o := os.Getenv("VERIF_OUT"); o != "" {
		os.WriteFile(o, ob, 0o644)
	} else {
		fmt.Println(string(ob))
	}
}
