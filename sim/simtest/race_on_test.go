//go:build race

package simtest

const raceEnabled = true
