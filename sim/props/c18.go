package props

import (
	"bytes"
	"context"
	"encoding/hex"
	"errors"
	"fmt"
	"log"
	"os"
	"runtime/debug"
	"strings"
	"sync"
	"syscall"
	"testing"
	"testing/synctest"
	"time"

	"github.com/koron-go/z80"
	"github.com/koron-go/z80/internal/tinycpm"
	"github.com/koron-go/z80/verifsim/world"
)

// C18 — the mini CP/M machine prints what programs ask for and returns
// control correctly. Real tinycpm.Memory / tinycpm.IO from the repository's
// working tree; simulated console writer (fault injecting), captured warning
// logger, host that re-enters Run after breakpoints and cancellations,
// NMI / mode-1 requests landing inside the BDOS loop.

// C18Item is one element of a generated CP/M program.
type C18Item struct {
	Kind string `json:"kind"` // putc | puts | fill | out | in | badfn
	Ch   uint8  `json:"ch,omitempty"`
	Addr uint16 `json:"addr,omitempty"` // puts: where the string lives
	Str  string `json:"str,omitempty"`  // hex, without the terminating '$'
	Fill string `json:"fill,omitempty"` // hex filler instructions
	Port uint8  `json:"port,omitempty"`
	// Reg: outc / inc - which register of OUT (C),r / IN r,(C): 0 B, 1 C, 2 D, 3 E, 4 H, 5 L, 7 A
	// (absent in older replay files: outc then means D)
	Reg *uint8 `json:"reg,omitempty"`
}

// C18Sc is a C18 scenario.
type C18Sc struct {
	Items      []C18Item     `json:"items"`
	SP         uint16        `json:"sp"`
	Regs       world.Regs    `json:"regs"`
	WriteFail  []int         `json:"write_fail,omitempty"` // console Write calls (0-based) that fail
	FailHow    int           `json:"fail_how,omitempty"`   // 0: (0,err) 1: (0,nil) 2: (1,err)
	BPAfter    bool          `json:"bp_after_calls"`       // breakpoint on every return address, Run again
	CancelAt   []uint64      `json:"cancel_at,omitempty"`  // ticks at which the current Run is cancelled (synctest bubble)
	Events     []world.Event `json:"events,omitempty"`     // NMI / mode-1 INT at ticks
	BadFnFinal bool          `json:"bad_fn_final,omitempty"`
	// TightStack: SP is placed so that exactly the one slot a CALL needs lies between
	// the end of the program image (or of a string) and SP: "0" = not, "prog", "str"
	TightStack string `json:"tight_stack,omitempty"`
	// Host usage of tinycpm.IO: PreWriter != "" = SetStdout is first called with another writer
	// ("buffer": *bytes.Buffer, which also has WriteByte; "plain": Write only) and then with the
	// real console; ByteWriter = the real console also offers WriteByte (io.ByteWriter).
	PreWriter  string `json:"pre_writer,omitempty"`
	ByteWriter bool   `json:"byte_writer,omitempty"`
	// Second: after the program has ended (halted at FF03) the host loads these items as a second
	// program at 0100h on the SAME machine and CPU value, sets PC/SP and drives it with Step.
	// FileConsole: the configured writer is a real *os.File (like the default os.Stdout), read back
	// through the file system when the console is inspected
	FileConsole bool `json:"file_console,omitempty"`
	// Defaults: the host calls neither SetStdout nor SetWarnLogger (as cmd/zexdoc does): the machine is
	// created and run while the process's descriptors 1 and 2 are pointed at scratch files
	Defaults bool `json:"defaults,omitempty"`
	// ForkAtBP: whenever Run has returned, the host carries on with a by-value copy of the CPU struct
	ForkAtBP bool `json:"fork_at_bp,omitempty"`
	// Rotate > 0: the console re-points itself - from inside its Rotate-th Write it calls SetStdout with
	// its successor (a rotating / line-splitting console); the stream continues there
	Rotate int `json:"rotate,omitempty"`
	// FuncWriter: the writers given to SetStdout are values of a func type with a Write method (an adapter,
	// like http.HandlerFunc): legal io.Writers that cannot be compared with ==
	FuncWriter bool      `json:"func_writer,omitempty"`
	Second     []C18Item `json:"second,omitempty"`
	// Concurrent: several independent machines (each its own Memory, IO, CPU, console) run at the same
	// time on their own goroutines (side-car: free threads; also in the -race binary).
	Concurrent []C18Sc `json:"concurrent,omitempty"`
}

type c18 struct{}

func init() { Register(c18{}) }

func (c18) ID() string       { return "C18" }
func (c18) New() interface{} { return &C18Sc{} }

func (c18) Gen(r *world.Rng, tier string, n int) interface{} {
	if strings.HasSuffix(tier, "-race") || n%12 == 7 {
		top := &C18Sc{}
		for k := r.Range(2, 4); k > 0; k-- {
			sub := c18Plain(r, tier)
			top.Concurrent = append(top.Concurrent, *sub)
		}
		return top
	}
	sc := c18GenOne(r, tier, n)
	if len(sc.Events) == 0 && len(sc.CancelAt) == 0 && !sc.BadFnFinal && sc.TightStack == "" && r.Chance(1, 5) {
		sc.Second = c18Plain(r, tier).Items
	}
	return sc
}

// c18Plain: a program without faults, events or host tricks.
func c18Plain(r *world.Rng, tier string) *C18Sc {
	s := c18GenOne(r, tier, 0)
	s.WriteFail, s.Events, s.CancelAt, s.BPAfter, s.TightStack, s.PreWriter = nil, nil, nil, false, "", ""
	s.Defaults = false // (process-wide streams: not for machines that run side by side)
	s.Rotate = 0       // (only the single run under the real-time clock can report a machine that blocks for ever)
	if s.BadFnFinal {
		s.BadFnFinal = false
		s.Items = s.Items[:len(s.Items)-1]
	}
	s.SP = 0xf800
	s.Regs.SP = s.SP
	return s
}

func c18GenOne(r *world.Rng, tier string, n int) *C18Sc {
	sc := &C18Sc{}
	regs := world.RandRegs(r)
	regs.PC = tinycpm.Start
	regs.SP = uint16(r.Range(0xf000, 0xfd00))
	switch r.Intn(12) {
	case 0, 1:
		regs.SP = 0xfe06 // what the usual `LD SP,(6)` gives: the stack grows down from the BDOS entry
	case 2:
		regs.SP = 0x0000 // the reset value: first push at 0xFFFF
	case 3:
		regs.SP = uint16(r.Range(0xfd00, 0xfe06))
	}
	regs.IM = 1
	regs.IFF1, regs.IFF2 = false, false
	sc.SP = regs.SP
	strAddr := uint16(0x2000)
	nitems := r.Range(1, 20)
	for i := 0; i < nitems; i++ {
		switch x := r.Intn(100); {
		case x < 35:
			sc.Items = append(sc.Items, C18Item{Kind: "putc", Ch: r.Byte()})
		case x < 70:
			var l int
			switch r.Intn(6) {
			case 0:
				l = 0
			case 1:
				l = 1
			case 2:
				l = r.Range(200, 4096)
			default:
				l = r.Range(2, 40)
			}
			if strings.HasPrefix(tier, "quick") && l > 600 {
				l = 600
			}
			// strings never overlap: sequential allocation with random gaps (once: far away)
			if r.Chance(1, 6) {
				strAddr += uint16(r.Range(0, 0x1000))
			} else {
				strAddr += uint16(r.Range(0, 40))
			}
			if int(strAddr)+l+1 > 0xe000 {
				l = max(0, min(l, 0xe000-int(strAddr)-1))
			}
			b := r.Bytes(l)
			for j := range b {
				if b[j] == '$' {
					b[j] = 0x00
				}
				if r.Chance(1, 10) {
					b[j] = []uint8{0x00, 0x80, 0xff, 0x0a, 0x0d, 0x23, 0x25}[r.Intn(7)]
				}
			}
			if int(strAddr)+l+1 > 0xe000 {
				continue
			}
			sc.Items = append(sc.Items, C18Item{Kind: "puts", Addr: strAddr, Str: hex.EncodeToString(b)})
			strAddr += uint16(l + 1)
		case x < 85:
			var f []uint8
			for k := r.Range(1, 4); k > 0; k-- {
				switch r.Intn(5) {
				case 0:
					f = append(f, 0x3e, r.Byte())
				case 1:
					f = append(f, 0x04)
				case 2:
					f = append(f, 0x16, r.Byte())
				case 3:
					f = append(f, 0xaf)
				default:
					f = append(f, 0x00)
				}
			}
			sc.Items = append(sc.Items, C18Item{Kind: "fill", Fill: hex.EncodeToString(f)})
		case x < 89:
			sc.Items = append(sc.Items, C18Item{Kind: "out", Port: uint8(r.Range(1, 255)), Ch: r.Byte()})
		case x < 92:
			// console output through the other OUT forms: OUT (C),r to port 0 and OTIR to port 0
			// (B = count, 0 means 256), from a string stored like the function-9 ones
			if r.Bool() {
				reg := []uint8{0, 1, 2, 3, 4, 5, 7}[r.Intn(7)]
				sc.Items = append(sc.Items, C18Item{Kind: "outc", Ch: r.Byte(), Reg: &reg})
			} else {
				l := r.Pick(1, 2, 3, 17, 255, 256)
				b := r.Bytes(l)
				if int(strAddr)+l+1 <= 0xe000 {
					sc.Items = append(sc.Items, C18Item{Kind: "otir", Addr: strAddr, Str: hex.EncodeToString(b)})
					strAddr += uint16(l + 1)
				}
			}
		default:
			// port reads, port 0 included (it is the console only for output), also through IN r,(C)
			port := uint8(r.Pick(0, 0, 1, 255, int(r.Byte()), int(r.Byte())))
			if r.Chance(1, 3) {
				reg := []uint8{0, 1, 2, 3, 4, 5, 7}[r.Intn(7)]
				sc.Items = append(sc.Items, C18Item{Kind: "inc", Port: port, Reg: &reg})
			} else {
				sc.Items = append(sc.Items, C18Item{Kind: "in", Port: port})
			}
		}
	}
	if r.Chance(1, 12) {
		sc.BadFnFinal = true
		sc.Items = append(sc.Items, C18Item{Kind: "badfn", Ch: []uint8{0, 1, 3, 8, 10, 255}[r.Intn(6)]})
	}
	sc.Regs = regs
	sc.BPAfter = r.Chance(1, 3)
	if r.Chance(1, 3) {
		for k := r.Range(1, 3); k > 0; k-- {
			sc.WriteFail = append(sc.WriteFail, r.Intn(60))
		}
		sc.FailHow = r.Intn(3)
	}
	if r.Chance(1, 3) {
		sc.Regs.IFF1, sc.Regs.IFF2 = true, true
		for k := r.Range(1, 3); k > 0; k-- {
			ev := world.Event{Kind: world.EvINT, AtTick: uint64(r.Range(1, 4000))}
			if r.Bool() {
				ev.Kind = world.EvNMI
			}
			sc.Events = append(sc.Events, ev)
		}
	}
	if r.Chance(1, 8) {
		for k := r.Range(1, 3); k > 0; k-- {
			sc.CancelAt = append(sc.CancelAt, uint64(r.Range(1, 3000)))
		}
	}
	if r.Chance(1, 4) {
		sc.PreWriter = []string{"buffer", "plain"}[r.Intn(2)]
	}
	sc.ByteWriter = r.Chance(1, 4)
	if len(sc.WriteFail) == 0 && !sc.ByteWriter && r.Chance(1, 12) {
		sc.FileConsole = true
	}
	sc.ForkAtBP = r.Chance(1, 4)
	sc.FuncWriter = !sc.ByteWriter && !sc.FileConsole && r.Chance(1, 5)
	if len(sc.WriteFail) == 0 && !sc.ByteWriter && !sc.FileConsole && !sc.FuncWriter && len(sc.CancelAt) == 0 && r.Chance(1, 10) {
		sc.Rotate = r.Range(1, 6) // (not in the bubble scenarios: only the run under the real-time clock can report a machine that blocks for ever)
	}
	if len(sc.WriteFail) == 0 && !sc.ByteWriter && !sc.FileConsole && sc.PreWriter == "" && len(sc.CancelAt) == 0 && r.Chance(1, 10) {
		sc.Defaults = true
	}
	if len(sc.Events) == 0 && r.Chance(1, 4) {
		// the stack has exactly the one slot the CALL needs, right behind code or a string
		prog, _, _, _, strs := c18Assemble(sc)
		sc.TightStack = "prog"
		end := tinycpm.Start + uint16(len(prog))
		if len(strs) > 0 && r.Bool() {
			sc.TightStack = "str"
			st := strs[0] // the one at the highest address: nothing of the program lies behind it
			for _, x := range strs {
				if x.Addr > st.Addr {
					st = x
				}
			}
			b, _ := st.Bytes()
			end = st.Addr + uint16(len(b))
		}
		sc.SP = end + 2
		sc.Regs.SP = sc.SP
	}
	return sc
}

type faultWriter struct {
	calls    int
	fail     map[int]bool
	how      int
	accepted []byte
	failed   []byte
	all      []byte
}

var errConsole = errors.New("simulated console failure")

// funcWriter adapts a function to io.Writer.
type funcWriter func(p []byte) (int, error)

func (f funcWriter) Write(p []byte) (int, error) { return f(p) }

// byteFaultWriter additionally offers WriteByte (io.ByteWriter) with the same accounting.
type byteFaultWriter struct{ *faultWriter }

func (w *byteFaultWriter) WriteByte(b byte) error {
	_, err := w.faultWriter.Write([]byte{b})
	return err
}

func (w *faultWriter) Write(p []byte) (int, error) {
	i := w.calls
	w.calls++
	w.all = append(w.all, p...)
	if w.fail[i] {
		w.failed = append(w.failed, p...)
		switch w.how {
		case 0:
			return 0, errConsole
		case 1:
			return 0, nil
		default:
			return len(p), errConsole // data went out, error reported anyway
		}
	}
	w.accepted = append(w.accepted, p...)
	return len(p), nil
}

// c18Assemble lays the program out at 0x0100 and returns its bytes, the
// return address after each BDOS call, the expected console stream and the
// number of warning-producing port accesses.
func c18Assemble(sc *C18Sc) (prog []uint8, rets []uint16, expect []byte, warns int, strs []world.Seg) {
	// warns: the number of DIFFERENT (direction, port) pairs the program touches outside port-0 output: every
	// one of them produces a warning - whether an implementation repeats it for every further access to the
	// same port (the bundled one does) or says it once is its own business
	offending := map[int]bool{}
	defer func() { warns = len(offending) }()
	addr := func() uint16 { return tinycpm.Start + uint16(len(prog)) }
	for _, it := range sc.Items {
		switch it.Kind {
		case "putc":
			prog = append(prog, 0x1e, it.Ch, 0x0e, 0x02, 0xcd, 0x05, 0x00)
			rets = append(rets, addr())
			expect = append(expect, it.Ch)
		case "puts":
			s, _ := hex.DecodeString(it.Str)
			prog = append(prog, 0x11, uint8(it.Addr), uint8(it.Addr>>8), 0x0e, 0x09, 0xcd, 0x05, 0x00)
			rets = append(rets, addr())
			expect = append(expect, s...)
			strs = append(strs, world.MkSeg(it.Addr, append(append([]uint8{}, s...), '$')))
		case "fill":
			f, _ := hex.DecodeString(it.Fill)
			prog = append(prog, f...)
		case "out":
			prog = append(prog, 0x3e, it.Ch, 0xd3, it.Port)
			offending[0x100|int(it.Port)] = true
		case "in":
			prog = append(prog, 0xdb, it.Port)
			offending[int(it.Port)] = true
		case "inc":
			prog = append(prog, 0x0e, it.Port, 0xed, 0x40|*it.Reg<<3) // LD C,port ; IN r,(C)
			offending[int(it.Port)] = true
		case "outc":
			reg := uint8(2)
			if it.Reg != nil {
				reg = *it.Reg
			}
			switch reg {
			case 1:
				// OUT (C),C on port 0 sends the 0 that selects the port; B holds something else
				prog = append(prog, 0x06, it.Ch, 0x0e, 0x00, 0xed, 0x49) // LD B,ch ; LD C,0 ; OUT (C),C
				expect = append(expect, 0x00)
			default:
				prog = append(prog, 0x06|reg<<3, it.Ch, 0x0e, 0x00, 0xed, 0x41|reg<<3) // LD r,ch ; LD C,0 ; OUT (C),r
				expect = append(expect, it.Ch)
			}
		case "otir":
			s, _ := hex.DecodeString(it.Str)
			prog = append(prog, 0x21, uint8(it.Addr), uint8(it.Addr>>8), 0x01, 0x00, uint8(len(s)), 0xed, 0xb3) // LD HL,addr ; LD BC,len<<8|0 ; OTIR
			expect = append(expect, s...)
			strs = append(strs, world.MkSeg(it.Addr, s))
		case "badfn":
			prog = append(prog, 0x0e, it.Ch, 0xcd, 0x05, 0x00)
		}
	}
	prog = append(prog, 0xc3, 0x00, 0x00)
	return
}

func (c18) Exec(sci interface{}, env *Env) (res *Violation) {
	sc := sci.(*C18Sc)
	if len(sc.Concurrent) > 0 {
		// machines share nothing: each must print exactly what its program asks for
		out := make([]*Violation, len(sc.Concurrent))
		var wg sync.WaitGroup
		for i := range sc.Concurrent {
			wg.Add(1)
			go func(i int) {
				defer wg.Done()
				defer func() {
					if r := recover(); r != nil {
						out[i] = viol("panic", "machine %d: %v", i, r)
					}
				}()
				q := NewEnv()
				q.Quiet = true
				out[i] = c18Run(&sc.Concurrent[i], q, false)
			}(i)
		}
		wg.Wait()
		for i, v := range out {
			if v != nil {
				return viol("console-stream-concurrent", "machine %d of %d running concurrently: %s", i, len(sc.Concurrent), v)
			}
		}
		env.Fire("machines-running-concurrently")
		env.NonTrivial = true
		return nil
	}
	if len(sc.CancelAt) == 0 {
		// under a real-time clock: a machine that blocks for ever inside a console or logger call never ends
		// its run (statistics are collected privately: the goroutine may never come back)
		pe := env.Private()
		done := make(chan *Violation, 1)
		go func() {
			defer func() {
				if r := recover(); r != nil {
					done <- &Violation{Oracle: panicOracle(debug.Stack()), Detail: fmt.Sprint(r)}
				}
			}()
			done <- c18Run(sc, pe, false)
		}()
		select {
		case v := <-done:
			env.Merge(pe)
			return v
		case <-time.After(60 * time.Second):
			return viol("end-state", "the machine's run did not come back within 60 s of real time (a program of %d items; the tick budget of 40 million accesses was not reached either): a jump to address 0 must end the run", len(sc.Items))
		}
	}
	// cancellation schedules run inside a synctest bubble so that "the watcher
	// has published" is a known instant (see C13)
	if env.T == nil {
		return viol("harness", "no *testing.T for a synctest bubble")
	}
	done := false
	synctest.Test(env.T, func(t *testing.T) {
		defer func() {
			if r := recover(); r != nil {
				res = viol("panic", "%v", r)
			}
			done = true
		}()
		res = c18Run(sc, env, true)
	})
	if !done {
		return viol("harness", "bubble did not finish")
	}
	return res
}

type c18Runaway struct{}

func c18Run(sc *C18Sc, env *Env, bubble bool) (res *Violation) {
	defer func() {
		if r := recover(); r != nil {
			if _, ok := r.(*c18Runaway); ok {
				res = viol("end-state", "the machine was still running after 40 million memory accesses: a jump to address 0 must end the run")
				return
			}
			panic(r)
		}
	}()
	prog, rets, expect, warns, strs := c18Assemble(sc)
	var confile, errfile *os.File
	if sc.Defaults {
		fo, err1 := os.CreateTemp(".", "stdout-*.bin")
		fe, err2 := os.CreateTemp(".", "stderr-*.txt")
		if err1 != nil || err2 != nil {
			return viol("harness", "cannot create the stand-ins for the standard streams: %v %v", err1, err2)
		}
		// the process's standard streams themselves (descriptors 1 and 2) are pointed at the scratch files
		// for the duration of the run, whichever Go value the library reaches them through (os.Stdout as it
		// is now, or a writer / logger it made from it when the package was initialised)
		save1, e1 := syscall.Dup(1)
		save2, e2 := syscall.Dup(2)
		if e1 != nil || e2 != nil {
			return viol("harness", "cannot save the standard streams: %v %v", e1, e2)
		}
		os.Stdout.Sync()
		if e := syscall.Dup3(int(fo.Fd()), 1, 0); e != nil {
			return viol("harness", "cannot redirect stdout: %v", e)
		}
		if e := syscall.Dup3(int(fe.Fd()), 2, 0); e != nil {
			syscall.Dup3(save1, 1, 0)
			return viol("harness", "cannot redirect stderr: %v", e)
		}
		confile, errfile = fo, fe
		env.Fire("machine-with-default-console-and-logger")
		defer func() {
			syscall.Dup3(save1, 1, 0)
			syscall.Dup3(save2, 2, 0)
			syscall.Close(save1)
			syscall.Close(save2)
			fo.Close()
			fe.Close()
			os.Remove(fo.Name())
			os.Remove(fe.Name())
		}()
	}
	mem, io := tinycpm.New()
	// the stack top of a CP/M program is the word at 0006h (the BDOS entry): scenarios place their stack
	// relative to 0xFE06, where the bundled image has it; if the image under test has it elsewhere the
	// stack moves with it (not in tight-stack scenarios, whose stack is placed relative to the program)
	top := uint16(mem.Get(6)) | uint16(mem.Get(7))<<8
	if shift := uint16(0xfe06) - top; shift != 0 && sc.SP >= 0x8000 && sc.TightStack == "" {
		c := *sc
		c.SP -= shift
		c.Regs.SP -= shift
		sc = &c
	}
	// (an image whose BDOS sits so low that this scenario's program or strings do not fit below it: not a case)
	hi := int(tinycpm.Start) + len(prog)
	for _, st := range strs {
		if b, _ := st.Bytes(); int(st.Addr)+len(b) > hi {
			hi = int(st.Addr) + len(b)
		}
	}
	if hi+64 > int(top) {
		env.Class("stop/program-does-not-fit-below-the-bdos")
		return nil
	}
	for i, b := range prog {
		mem.Set(tinycpm.Start+uint16(i), b)
	}
	for _, s := range strs {
		b, _ := s.Bytes()
		for i, x := range b {
			mem.Set(s.Addr+uint16(i), x)
		}
	}
	// transparent handlers in the BIOS page (free there): mode 1 and NMI
	for i, b := range []uint8{0xf5, 0xf1, 0xfb, 0xed, 0x4d} {
		mem.Set(0x0038+uint16(i), b)
	}
	for i, b := range []uint8{0xf5, 0xf1, 0xed, 0x45} {
		mem.Set(0x0066+uint16(i), b)
	}
	fw := &faultWriter{fail: map[int]bool{}, how: sc.FailHow}
	for _, i := range sc.WriteFail {
		fw.fail[i] = true
	}
	var warnBuf bytes.Buffer
	var pre bytes.Buffer
	var prePlain faultWriter
	switch {
	case sc.PreWriter != "" && sc.FuncWriter:
		io.SetStdout(funcWriter(pre.Write))
	case sc.PreWriter == "buffer":
		io.SetStdout(&pre)
	case sc.PreWriter == "plain":
		io.SetStdout(&prePlain)
	}
	if sc.Defaults {
		// nothing is configured
	} else if sc.FileConsole {
		f, err := os.CreateTemp(".", "console-*.bin")
		if err != nil {
			return viol("harness", "cannot create the console file: %v", err)
		}
		confile = f
		env.Fire("console-is-a-real-file")
		defer func() {
			f.Close()
			os.Remove(f.Name())
		}()
		io.SetStdout(f)
	} else if sc.ByteWriter {
		io.SetStdout(&byteFaultWriter{fw})
	} else if sc.Rotate > 0 && !sc.Defaults {
		// both generations of the console keep the same books
		n := 0
		var first funcWriter
		first = func(p []byte) (int, error) {
			n++
			if n == sc.Rotate {
				io.SetStdout(funcWriter(fw.Write))
				env.Fire("console-repointed-from-inside-write")
			}
			return fw.Write(p)
		}
		io.SetStdout(first)
	} else if sc.FuncWriter {
		io.SetStdout(funcWriter(fw.Write))
		env.Fire("console-is-a-func-adapter")
	} else {
		io.SetStdout(fw)
	}
	// console(): what has reached the configured writer so far
	console := func() []byte {
		if confile != nil {
			b, _ := os.ReadFile(confile.Name())
			return b
		}
		return fw.accepted
	}
	// expected console length when each BDOS call has returned
	var cum []int
	{
		n := 0
		for _, it := range sc.Items {
			switch it.Kind {
			case "putc", "outc":
				n++
			case "puts", "otir":
				n += len(it.Str) / 2
			}
			if it.Kind == "putc" || it.Kind == "puts" {
				cum = append(cum, n)
			}
		}
	}
	if !sc.Defaults {
		io.SetWarnLogger(log.New(&warnBuf, "", 0))
	}

	var tick uint64
	var logAcc []world.Acc
	cpu := &z80.CPU{States: sc.Regs.States(), IO: io}
	raised := make([]bool, len(sc.Events))
	var cancel context.CancelFunc
	cancelled := make([]bool, len(sc.CancelAt))
	accepted := 0
	on := func() {
		for i, e := range sc.Events {
			if !raised[i] && e.AtTick == tick && cpu.Interrupt == nil {
				raised[i] = true
				cpu.Interrupt = e.Request()
			}
		}
		for i, c := range sc.CancelAt {
			if !cancelled[i] && c == tick && cancel != nil && bubble {
				cancelled[i] = true
				cancel()
				synctest.Wait()
				env.Fire("cancel-mid-run")
			}
		}
		if tick > 40_000_000 {
			panic(&c18Runaway{})
		}
	}
	cpu.Memory = recMem{mem, &logAcc, &tick, func() {
		if len(logAcc) > 64 {
			logAcc = logAcc[:0]
		}
		on()
	}}
	// a breakpoint on the program's final JP 0: the last point at which SP is still the program's
	jpAddr := tinycpm.Start + uint16(len(prog)) - 3
	cpu.BreakPoints = map[uint16]struct{}{}
	if !sc.BadFnFinal {
		cpu.BreakPoints[jpAddr] = struct{}{}
	}
	if sc.BPAfter {
		for _, a := range rets {
			cpu.BreakPoints[a] = struct{}{}
		}
	}
	var imgBefore [65536]uint8
	for a := 0; a < 65536; a++ {
		imgBefore[a] = mem.Get(uint16(a))
	}
	nRet := 0
	var finalErr error
	for runs := 0; ; runs++ {
		if runs > len(rets)+len(sc.CancelAt)+8 {
			return viol("end-state", "machine did not finish after %d Run calls (PC=%04x)", runs, cpu.PC)
		}
		if runs > 0 && sc.ForkAtBP {
			c2 := *cpu // the host carries on with a copy of the CPU value
			cpu = &c2
			env.Fire("host-continues-on-a-copy-of-the-cpu")
		}
		ctx, c := context.WithCancel(context.Background())
		cancel = c
		pendingBefore := cpu.Interrupt != nil
		_ = pendingBefore
		err := cpu.Run(ctx)
		c()
		cancel = nil
		if errors.Is(err, context.Canceled) && !(sc.BPAfter && nRet < len(rets) && cpu.PC == rets[nRet]) {
			continue
		}
		// (a cancellation that ties with the arrival at a breakpoint may be reported as either: the arrival counts)
		if errors.Is(err, z80.ErrBreakPoint) && cpu.PC == jpAddr && !sc.BadFnFinal && !(sc.BPAfter && nRet < len(rets) && rets[nRet] == jpAddr) {
			// the program is about to jump to address 0: every BDOS call has returned, with SP where it was
			// (what the warm boot does with SP afterwards is its own business)
			if cpu.SP != sc.SP {
				return viol("returns-to-caller", "at the program's final JP 0 SP=%04x; it was %04x when the program started and every CALL 5 returns with SP intact", cpu.SP, sc.SP)
			}
			continue
		}
		if errors.Is(err, z80.ErrBreakPoint) || errors.Is(err, context.Canceled) {
			env.Fire("breakpoint-after-call")
			switch {
			case nRet < len(rets) && cpu.PC == rets[nRet]:
			case nRet > 0 && cpu.PC == rets[nRet-1]:
				continue // same return address reached again after an interrupt handler returned to it
			default:
				return viol("returns-to-caller", "BDOS call #%d returned to %04x, the caller continues at %04x", nRet, cpu.PC, rets[min(nRet, len(rets)-1)])
			}
			// "console output reaches the configured writer ... in program order": when the call has returned,
			// what it printed is there (checked when no write fault was injected)
			if len(sc.WriteFail) == 0 && nRet < len(cum) {
				if got := console(); !bytes.Equal(got, expect[:cum[nRet]]) {
					return viol("console-stream", "BDOS call #%d has returned: the configured writer holds %d bytes %s, the program has asked for %d bytes %s so far", nRet, len(got), clip(got), cum[nRet], clip(expect[:cum[nRet]]))
				}
			}
			// returned to the caller: SP and the caller's code intact
			if cpu.SP != sc.SP {
				return viol("returns-to-caller", "after BDOS call #%d SP=%04x, was %04x before the call", nRet, cpu.SP, sc.SP)
			}
			for i, b := range prog {
				if mem.Get(tinycpm.Start+uint16(i)) != b {
					return viol("returns-to-caller", "after BDOS call #%d the caller's code byte at %04x changed", nRet, tinycpm.Start+uint16(i))
				}
			}
			nRet++
			continue
		}
		finalErr = err
		break
	}
	if len(sc.Second) > 0 && finalErr == nil && cpu.PC == 0xff03 {
		// same machine, same CPU value (HALT field still set - the host does not touch it), Step-driven
		s2 := &C18Sc{Items: sc.Second}
		prog2, rets2, expect2, warns2, strs2 := c18Assemble(s2)
		var cum2 []int
		{
			n := 0
			for _, it := range s2.Items {
				switch it.Kind {
				case "putc", "outc":
					n++
				case "puts", "otir":
					n += len(it.Str) / 2
				}
				if it.Kind == "putc" || it.Kind == "puts" {
					cum2 = append(cum2, n)
				}
			}
		}
		first := len(expect)
		next := 0
		for i, b := range prog2 {
			mem.Set(tinycpm.Start+uint16(i), b)
		}
		for _, s := range strs2 {
			b, _ := s.Bytes()
			for i, x := range b {
				mem.Set(s.Addr+uint16(i), x)
			}
		}
		cpu.PC, cpu.SP = tinycpm.Start, sc.SP
		parked := 0
		for i := 0; i < 3_000_000 && parked < 2; i++ {
			cpu.Step()
			if next < len(rets2) && cpu.PC == rets2[next] {
				// Step-driven host looking at the console right after a call has returned (no HALT, no Run in between)
				if len(sc.WriteFail) == 0 && next < len(cum2) {
					want := append(append([]byte{}, expect[:first]...), expect2[:cum2[next]]...)
					if got := console(); !bytes.Equal(got, want) {
						return viol("console-stream", "second program, Step-driven: BDOS call #%d has returned, the configured writer holds %d bytes, the programs have asked for %d so far (missing tail: %s)", next, len(got), len(want), clip(want[min(len(got), len(want)):]))
					}
				}
				next++
			}
			if cpu.PC == 0xff03 {
				parked++
			} else {
				parked = 0
			}
		}
		if parked < 2 {
			return viol("second-program", "a second program loaded on the same machine and driven by Step did not reach FF03 (PC=%04x, %d console bytes so far)", cpu.PC, len(fw.accepted))
		}
		expect = append(expect, expect2...)
		if warns2 > warns {
			warns = warns2 // (a lower bound of the different pairs of both programs together)
		}
		prog, strs = prog2, strs2
		env.Fire("second-program-step-driven-on-the-same-machine")
	}
	if cpu.Interrupt == nil {
		for i := range raised {
			if raised[i] {
				accepted++
			}
		}
	}
	env.Ticks += tick
	if finalErr != nil {
		return viol("end-state", "Run returned %v", finalErr)
	}
	if !sc.BadFnFinal {
		if cpu.PC != 0xff03 || !cpu.HALT {
			return viol("end-state", "a jump to address 0 must end the run halted at FF03; PC=%04x HALT=%t", cpu.PC, cpu.HALT)
		}
		if sc.BPAfter && nRet != len(rets) {
			return viol("returns-to-caller", "%d BDOS calls, %d returns to the caller observed", len(rets), nRet)
		}
		if len(sc.Events) == 0 && len(sc.CancelAt) == 0 && len(sc.Second) == 0 && !bubble {
			// a finished machine stays finished: a host that calls Run again (a `for { Run }` driver) finds
			// it halted at FF03 again, and nothing more reaches the console
			n0 := len(console())
			sp0 := cpu.SP
			for k := 0; k < 2; k++ {
				if err := cpu.Run(context.Background()); err != nil || cpu.PC != 0xff03 || !cpu.HALT || cpu.SP != sp0 {
					return viol("end-state", "Run called again on the machine that had ended its run halted at FF03: returned %v with PC=%04x HALT=%t SP=%04x (was %04x)", err, cpu.PC, cpu.HALT, cpu.SP, sp0)
				}
			}
			if n := len(console()); n != n0 {
				return viol("console-stream", "Run called again on the finished machine sent %d more bytes to the console", n-n0)
			}
			env.Fire("run-again-on-the-finished-machine")
		}
	}
	if pre.Len() != 0 || len(prePlain.all) != 0 {
		return viol("console-stream", "%d console bytes went to a writer that had been replaced by SetStdout before the program ran", pre.Len()+len(prePlain.all))
	}
	// console stream
	if len(sc.WriteFail) == 0 || fw.calls <= minInt(sc.WriteFail) {
		got := console()
		if sc.BadFnFinal && len(got) > len(expect) {
			got = got[:len(expect)] // (what a BDOS prints when it is asked for a function it does not have is not specified)
		}
		if !bytes.Equal(got, expect) {
			return viol("console-stream", "console received %d bytes %s, program asked for %d bytes %s", len(got), clip(got), len(expect), clip(expect))
		}
	} else {
		// narrow relaxation under writer faults: nothing duplicated, reordered or invented;
		// only the failed calls' payload may be missing
		j := 0
		var missing []byte
		got := fw.accepted
		if sc.FailHow == 2 {
			got = fw.all // the writer did take the bytes of "failed" calls
		}
		for _, b := range expect {
			if j < len(got) && got[j] == b {
				j++
			} else {
				missing = append(missing, b)
			}
		}
		if j != len(got) {
			return viol("console-stream-under-faults", "console bytes %s are not a subsequence of the requested stream %s", clip(got), clip(expect))
		}
		cnt := map[byte]int{}
		for _, b := range fw.failed {
			cnt[b]++
		}
		for _, b := range missing {
			cnt[b]--
			if cnt[b] < 0 || sc.FailHow == 2 {
				return viol("console-stream-under-faults", "byte %02x is missing from the console although no failed write carried it", b)
			}
		}
		env.FireN("console-write-fault", uint64(len(fw.failed)))
	}
	// warnings: one or more per offending port access, none otherwise, and no console byte from them
	lines := strings.Count(warnBuf.String(), "\n")
	if errfile != nil {
		b, _ := os.ReadFile(errfile.Name())
		// (where a machine nobody configured sends its warnings is not specified: the process's standard
		// error stream as it was when the machine was made, or package log's default logger)
		lines = strings.Count(string(b), "\n") + strings.Count(env.LogBuf.String(), "\n")
	}
	// (that nothing else ever warns is not part of the statement - e.g. logging a failed console write
	// would be a reasonable thing to do - so only the lower bound is demanded)
	if lines < warns {
		return viol("warnings", "the program touches %d different (direction, port) pairs outside port-0 output, only %d warning lines", warns, lines)
	}
	if warns > 0 {
		env.FireN("warning-path", uint64(warns))
	}
	if accepted > 0 {
		env.FireN("interrupt-inside-machine", uint64(accepted))
	}
	env.NonTrivial = len(expect) > 0
	env.Class("calls=%s/bp=%t/faults=%t/events=%t/cancel=%t/tight=%s", bucket(len(rets)), sc.BPAfter, len(sc.WriteFail) > 0, len(sc.Events) > 0, len(sc.CancelAt) > 0, sc.TightStack)
	// caller's code and every string intact at the end
	for i, b := range prog {
		if mem.Get(tinycpm.Start+uint16(i)) != b {
			return viol("returns-to-caller", "the caller's code byte at %04x changed (SP=%04x)", tinycpm.Start+uint16(i), sc.SP)
		}
	}
	for _, st := range strs {
		b, _ := st.Bytes()
		for i, x := range b {
			if mem.Get(st.Addr+uint16(i)) != x {
				return viol("returns-to-caller", "the program's string byte at %04x changed (SP=%04x)", st.Addr+uint16(i), sc.SP)
			}
		}
	}
	// nothing else of the machine's memory either: only the stack slot of the CALL (plus the frames of
	// the interrupt handlers, when requests were raised) may differ from the image the run started with
	// The caller's memory is the transient program area [0100h, word at 0006h); page 0 and everything from
	// the BDOS entry up are the system's own (it may keep variables there). Below SP the stack is free for
	// whoever is running - 64 bytes of it are left out, in tight-stack scenarios only the CALL's slot (there
	// the caller's code or string starts right below it).
	if len(sc.Second) == 0 {
		frame := uint16(2)
		if len(sc.Events) > 0 {
			frame = 2 + 6*uint16(len(sc.Events)+1)
		}
		if sc.TightStack == "" && frame < 64 {
			frame = 64
		}
		for a := int(tinycpm.Start); a < int(top); a++ {
			if mem.Get(uint16(a)) != imgBefore[a] && sc.SP-uint16(a)-1 >= frame {
				return viol("returns-to-caller", "memory[%04x] changed from %02x to %02x: it belongs to the caller's program area [0100,%04x) and not to the stack window [%04x,%04x)", a, imgBefore[a], mem.Get(uint16(a)), top, sc.SP-frame, sc.SP)
			}
		}
	}
	return nil
}

func minInt(a []int) int {
	m := a[0]
	for _, x := range a {
		if x < m {
			m = x
		}
	}
	return m
}

func clip(b []byte) string {
	if len(b) > 24 {
		return fmt.Sprintf("%x..(%d)", b[:24], len(b))
	}
	return fmt.Sprintf("%x", b)
}

func (c18) Shrink(sci interface{}, _ *Violation) []interface{} {
	p := c18{}
	sc := sci.(*C18Sc)
	var out []interface{}
	for i := range sc.Items {
		n := Clone(p, sc).(*C18Sc)
		n.Items = append(n.Items[:i], n.Items[i+1:]...)
		out = append(out, n)
	}
	for i, it := range sc.Items {
		if it.Kind == "puts" && len(it.Str) > 2 {
			n := Clone(p, sc).(*C18Sc)
			n.Items[i].Str = it.Str[:len(it.Str)/4*2]
			out = append(out, n)
		}
	}
	if len(sc.Events) > 0 {
		n := Clone(p, sc).(*C18Sc)
		n.Events = nil
		out = append(out, n)
	}
	if len(sc.CancelAt) > 0 {
		n := Clone(p, sc).(*C18Sc)
		n.CancelAt = nil
		out = append(out, n)
	}
	if len(sc.WriteFail) > 0 {
		n := Clone(p, sc).(*C18Sc)
		n.WriteFail = nil
		out = append(out, n)
	}
	if sc.BPAfter {
		n := Clone(p, sc).(*C18Sc)
		n.BPAfter = false
		out = append(out, n)
	}
	return out
}
