package props

import (
	"context"
	"encoding/hex"
	"fmt"
	"strings"
	"sync"
	"time"

	"github.com/koron-go/z80"
	"github.com/koron-go/z80/verifsim/gen"
	"github.com/koron-go/z80/verifsim/world"
)

// C10 — execution is deterministic, captured by States+memory, and isolated
// per CPU. (a) twice the same scenario; (b) crash/restart from durable state
// at every boundary; (c) 2..16 CPUs on their own goroutines, parked at every
// bus access and released one at a time by the seeded scheduler; (d) the same
// worlds free-running in the -race binary (side-car, outside the family).

// C10World is one CPU's world.
type C10World struct {
	Kind     string        `json:"kind"` // structured | bytes
	Prog     *gen.Prog     `json:"prog,omitempty"`
	Handlers []gen.CodeSeg `json:"handlers,omitempty"`
	Table    []world.Seg   `json:"table,omitempty"`
	MemSeed  uint64        `json:"mem_seed,omitempty"` // bytes: whole image
	Regs     world.Regs    `json:"regs"`
	IOSeed   uint64        `json:"io_seed"`
	Events   []world.Event `json:"events"`
	Steps    int           `json:"steps"`
	Patch    []world.Seg   `json:"patch,omitempty"` // bytes: placed on top of the seeded image
	// Pokes: DMA / bank switching - the host changes memory contents behind the CPU's back between two
	// Steps (not through cpu.Memory.Set). The CPU must see whatever memory returns afterwards.
	Pokes []C10Poke `json:"pokes,omitempty"`
	// NilIO: no I/O device attached (cpu.IO == nil)
	NilIO bool `json:"nil_io,omitempty"`
}

// C10Poke is one host write into the memory image before Step At.
type C10Poke struct {
	At   int    `json:"at"`
	Addr uint16 `json:"addr"`
	Val  uint8  `json:"val"`
}

// C10Sc is a C10 scenario.
type C10Sc struct {
	Mode   string     `json:"mode"` // restore | interleave | free
	Worlds []C10World `json:"worlds"`
	Picks  []uint8    `json:"picks,omitempty"`   // interleave: scheduler choices, cycled
	Only   []int      `json:"only_k,omitempty"`  // restore: only these snapshot points (replay of one point)
	Stride int        `json:"stride,omitempty"`  // restore: every Stride-th boundary (1 = all)
	UseRun bool       `json:"use_run,omitempty"` // free: drive by Run to a breakpoint instead of Step
}

type c10 struct{}

func init() { Register(c10{}) }

func (c10) ID() string       { return "C10" }
func (c10) New() interface{} { return &C10Sc{} }

func c10World(r *world.Rng, steps int) C10World {
	w := C10World{IOSeed: r.U64(), Steps: steps}
	mode := r.Intn(3)
	if r.Chance(1, 10) {
		// a block copy that sweeps over its own opcode bytes (and over the code behind it)
		w.Kind = "bytes"
		w.MemSeed = 0
		w.Regs = world.RandRegs(r)
		pc := uint16(r.Range(0x0100, 0xe000))
		op := []uint8{0xb0, 0xb8}[r.Intn(2)]
		n := uint16(r.Range(3, 24))
		back := uint16(r.Range(1, int(n)-1)) // how many elements before the copy reaches the opcode
		w.Regs.PC, w.Regs.BC = pc, n
		src := uint16(r.Range(0x4000, 0x5000))
		if op == 0xb0 {
			w.Regs.DE, w.Regs.HL = pc-back, src
		} else {
			w.Regs.DE, w.Regs.HL = pc+1+back, src+n
		}
		w.Patch = []world.Seg{world.MkSeg(pc, []uint8{0xed, op, 0x3c, 0x3c, 0x76}), world.MkSeg(src-2, make([]uint8, int(n)+4))}
		if r.Bool() {
			w.Patch[1] = world.MkSeg(src-2, r.Bytes(int(n)+4))
		}
		w.Steps = int(n) + 8
		return w
	}
	if r.Chance(2, 3) {
		w.Kind = "structured"
		p := gen.Structured(r, gen.Opts{IO: true, Blocks: r.Range(3, 16), MaxSubs: 3, EI: true, StartEI: r.Chance(3, 4)})
		p.Regs.IM = mode
		p.Regs.I = uint8(c07Table >> 8)
		w.Prog = p
		w.Regs = p.Regs
		hs := genHandlers(r, mode)
		w.Handlers, w.Table = hs.Handlers, hs.Table
		for i := r.Intn(4); i > 0; i-- {
			ev := hs.Kinds[r.Intn(len(hs.Kinds))]
			switch r.Intn(5) {
			case 0:
				ev.OnRet = true
			case 1, 2:
				ev.AtTick = uint64(r.Range(1, 3*steps))
				ev.Force = r.Chance(1, 4)
			default:
				ev.Boundary = r.Intn(steps)
			}
			w.Events = append(w.Events, ev)
		}
		return w
	}
	w.Kind = "bytes"
	w.MemSeed = r.U64()
	w.Regs = world.RandRegs(r)
	if r.Chance(1, 3) {
		// a straight run of rarely used encodings at PC: the undocumented DD/FD CB d op register forms, the
		// IXH/IXL family, ED duplicates, every IN r,(C) / OUT (C),r (whether the library implements one or
		// warns and skips it, it must do so identically on every copy of the CPU)
		var code []uint8
		for k := r.Range(6, 16); k > 0; k-- {
			pre := []uint8{0xdd, 0xfd}[r.Intn(2)]
			switch r.Intn(6) {
			case 0, 1:
				op := uint8(r.Intn(256))
				for op&7 == 6 || op&0xc0 == 0x40 { // not the documented (IX+d) forms, not BIT
					op = uint8(r.Intn(256))
				}
				code = append(code, pre, 0xcb, r.Byte(), op)
			case 2:
				code = append(code, pre, []uint8{0x24, 0x25, 0x2c, 0x2d, 0x44, 0x45, 0x4c, 0x4d, 0x54, 0x5d, 0x60, 0x61, 0x62, 0x63, 0x65, 0x67, 0x68, 0x69, 0x6c, 0x6f, 0x7c, 0x7d, 0x84, 0x85, 0x8c, 0x94, 0x9d, 0xa4, 0xad, 0xb4, 0xbd}[r.Intn(31)])
			case 3:
				code = append(code, pre, []uint8{0x26, 0x2e}[r.Intn(2)], r.Byte())
			case 4:
				code = append(code, 0xed, []uint8{0x40, 0x48, 0x50, 0x58, 0x60, 0x68, 0x70, 0x78, 0x41, 0x49, 0x51, 0x59, 0x61, 0x69, 0x71, 0x79}[r.Intn(16)])
			default:
				nn := uint16(r.Range(0x9000, 0x9100))
				x := [][]uint8{{0xed, 0x63, uint8(nn), uint8(nn >> 8)}, {0xed, 0x6b, uint8(nn), uint8(nn >> 8)}, {0xed, 0x4c}, {0xed, 0x54}, {0xed, 0x7c}, {0xed, 0x4e}, {0xed, 0x6e}, {0xed, 0x77}, {0xed, 0x7f}}
				code = append(code, x[r.Intn(len(x))]...)
			}
		}
		w.Patch = append(w.Patch, world.MkSeg(w.Regs.PC, code))
	}
	for i := r.Intn(4); i > 0; i-- {
		ev := world.Event{Kind: world.EvINT, Data: fmt.Sprintf("%02x", []uint8{0xc7, 0xff, 0xcf, 0x10, 0x82}[r.Intn(5)])}
		switch r.Intn(6) {
		case 0, 1:
			ev = world.Event{Kind: world.EvNMI}
		case 2:
			// a device that puts some other instruction on the bus in mode 0: repeating block
			// instructions (one element, then the program continues), read-modify-write, loads,
			// prefixed forms, jumps; sometimes with bytes behind it
			pool := [][]uint8{{0xed, 0xb0}, {0xed, 0xb8}, {0xed, 0xb1}, {0xed, 0xb2}, {0xed, 0xb3}, {0xed, 0xbb}, {0xed, 0xa0}, {0x34}, {0x35},
				{0x32, 0x00, 0x90}, {0x3a, 0x00, 0x90}, {0xdd, 0x34, 0x05}, {0xfd, 0x21, 0x34, 0x12}, {0xc3, 0x00, 0x40}, {0xcd, 0x00, 0x40},
				{0x18, 0x10}, {0x10, 0xfe}, {0xe5}, {0xe1}, {0xc9}, {0xe3}, {0xcb, 0xc6}, {0xdb, 0x10}, {0xd3, 0x10}, {0xed, 0x78}, {0xfb}, {0xf3}, {0x00}}
			d := append([]uint8(nil), pool[r.Intn(len(pool))]...)
			if r.Chance(1, 4) {
				d = append(d, r.Bytes(r.Range(1, 3))...)
			}
			ev = world.Event{Kind: world.EvINT, Data: hex.EncodeToString(d)}
		}
		if r.Bool() {
			ev.AtTick = uint64(r.Range(1, 3*steps))
		} else {
			ev.Boundary = r.Intn(steps)
		}
		w.Events = append(w.Events, ev)
	}
	return w
}

// c10Pokes draws host writes into code that is about to be (re-)executed.
func c10Pokes(r *world.Rng, w *C10World) {
	if !r.Chance(1, 3) {
		return
	}
	lo, hi := 0x0100, 0x0200
	if w.Prog != nil {
		lo, hi = int(w.Prog.Code[0].Addr), int(w.Prog.HaltAddr)+1
	} else {
		lo = int(w.Regs.PC)
		hi = lo + 0x60
	}
	for i := r.Range(1, 6); i > 0; i-- {
		w.Pokes = append(w.Pokes, C10Poke{At: r.Intn(w.Steps), Addr: uint16(r.Range(lo, hi)), Val: []uint8{0x00, 0x3c, 0x04, 0x76, 0xc9, 0x18, 0xed, 0xdd, r.Byte(), r.Byte()}[r.Intn(10)]})
	}
}

func (c10) Gen(r *world.Rng, tier string, n int) interface{} {
	sc := &C10Sc{}
	if strings.HasSuffix(tier, "-race") {
		sc.Mode = "free"
		nilIO := r.Chance(1, 4)
		for i := r.Range(2, 16); i > 0; i-- {
			w := c10World(r, r.Range(200, 3000))
			w.NilIO = nilIO
			sc.Worlds = append(sc.Worlds, w)
		}
		sc.UseRun = r.Bool()
		return sc
	}
	if n%3 != 2 {
		sc.Mode = "restore"
		steps := r.Range(20, 300)
		sc.Worlds = []C10World{c10World(r, steps)}
		c10Pokes(r, &sc.Worlds[0])
		sc.Stride = 1
		if strings.HasPrefix(tier, "thorough") && r.Chance(1, 4) {
			sc.Worlds[0].Steps = r.Range(300, 3000)
			sc.Stride = r.Range(7, 40)
		}
		return sc
	}
	sc.Mode = "interleave"
	nilIO := r.Chance(1, 4)
	for i := r.Pick(2, 2, 3, 4, 8, 16); i > 0; i-- {
		w := c10World(r, r.Range(30, 400))
		w.NilIO = nilIO // several CPUs without a device of their own: nothing may stand in for it that they share
		sc.Worlds = append(sc.Worlds, w)
	}
	sc.Picks = r.Bytes(r.Range(8, 64))
	return sc
}

func c10Machine(w *C10World) *world.Machine {
	var m *world.Machine
	if w.Kind == "structured" {
		segs := w.Prog.Segs()
		for _, h := range w.Handlers {
			segs = append(segs, h.Seg())
		}
		segs = append(segs, w.Table...)
		m, _ = world.NewMachine(w.Regs, segs, w.IOSeed, w.Events)
	} else {
		m, _ = world.NewMachine(w.Regs, nil, w.IOSeed, w.Events)
		if w.MemSeed != 0 {
			fillMem(&m.Bus.Mem, w.MemSeed)
		}
		m.Bus.Load(w.Patch)
	}
	if w.NilIO {
		m.CPU.IO = nil
	}
	return m // (probe "world-without-io-device" is counted by the callers that own an Env)
}

// c10Sig is everything observable at a boundary (memory through the write hash).
type c10Sig struct {
	st         z80.States
	halt       bool
	hash       uint64
	whash      uint64
	tick       uint64
	slot       string
	reti, retn int
}

func sigOf(m *world.Machine) c10Sig {
	return c10Sig{m.CPU.States, m.CPU.HALT, m.Bus.Hash, m.Bus.WHash, m.Bus.Tick, world.FmtRequest(m.CPU.Interrupt), m.Cnt.RETI, m.Cnt.RETN}
}

func (a c10Sig) diff(b c10Sig) string {
	if a == b {
		return ""
	}
	s := world.DiffStates(a.st, b.st, false)
	if a.halt != b.halt {
		s += fmt.Sprintf(" HALT:%t!=%t", a.halt, b.halt)
	}
	if a.hash != b.hash || a.tick != b.tick {
		s += fmt.Sprintf(" bus-history differs (ticks %d vs %d)", a.tick, b.tick)
	}
	if a.whash != b.whash {
		s += " memory-writes differ"
	}
	if a.slot != b.slot {
		s += fmt.Sprintf(" pending:%s!=%s", a.slot, b.slot)
	}
	if a.reti != b.reti || a.retn != b.retn {
		s += fmt.Sprintf(" notifications:%d/%d!=%d/%d", a.reti, a.retn, b.reti, b.retn)
	}
	return s
}

func (c10) Exec(sci interface{}, env *Env) *Violation {
	sc := sci.(*C10Sc)
	switch sc.Mode {
	case "restore":
		return c10Restore(sc, env)
	case "interleave":
		return c10Interleave(sc, env)
	default:
		return c10Free(sc, env)
	}
}

func c10Restore(sc *C10Sc, env *Env) *Violation {
	w := &sc.Worlds[0]
	// reference run, recorded at every boundary; run twice: determinism
	var ref []c10Sig
	var refMem [65536]uint8
	for pass := 0; pass < 2; pass++ {
		m := c10Machine(w)
		for k := 0; k < w.Steps; k++ {
			s := sigOf(m)
			if pass == 0 {
				ref = append(ref, s)
			} else if d := ref[k].diff(s); d != "" {
				return viol("determinism", "second execution of the same scenario differs at boundary %d:%s", k, d)
			}
			m.Step()
		}
		if pass == 0 {
			ref = append(ref, sigOf(m))
			refMem = m.Bus.Mem
			env.Steps += uint64(m.Steps)
			env.Ticks += m.Bus.Tick
			for k, v := range m.Raised {
				env.FireN("raised/"+k, uint64(v))
			}
		} else if d := ref[w.Steps].diff(sigOf(m)); d != "" || refMem != m.Bus.Mem {
			return viol("determinism", "second execution of the same scenario ends differently:%s", d)
		}
	}
	env.Fire("executed-twice")
	if v := c10TypeTwin(w, env); v != nil {
		return v
	}
	// host fault: the Memory/IO values are replaced by equal-content ones at every boundary
	// (mode 1), or the CPU struct is copied by value and given the new devices (mode 2)
	for mode := 1; mode <= 2; mode++ {
		m := c10Machine(w)
		m.SwapMode = mode
		for k := 0; k < w.Steps; k++ {
			m.Step()
			if d := ref[k+1].diff(sigOf(m)); d != "" || m.StaleCount() != 0 {
				how := "cpu.Memory / cpu.IO replaced by equal-content devices before every Step"
				if mode == 2 {
					how = "CPU struct copied by value and given equal-content devices before every Step"
				}
				return viol("device-swap", "%s: differs from the undisturbed run at boundary %d (undisturbed!=swapped):%s; accesses that reached an abandoned device: %d", how, k+1, d, m.StaleCount())
			}
		}
		if m.Bus.Mem != refMem {
			return viol("device-swap", "swap mode %d: final memory image differs", mode)
		}
		env.Fire(fmt.Sprintf("device-swap-mode-%d", mode))
		env.Steps += uint64(w.Steps)
	}
	if v := c10ReuseObject(w, ref, &refMem, env); v != nil {
		return v
	}
	// whether notification handlers are registered is not among the things a Step may depend on: the same
	// world without any (worlds whose events do not hang on a notification)
	onRet := false
	for _, e := range w.Events {
		onRet = onRet || e.OnRet
	}
	if !onRet {
		m := c10Machine(w)
		m.CPU.RETNHandler, m.CPU.RETIHandler = nil, nil
		for k := 0; k < w.Steps; k++ {
			m.Step()
			sg := sigOf(m)
			sg.reti, sg.retn = ref[k+1].reti, ref[k+1].retn
			if d := ref[k+1].diff(sg); d != "" {
				return viol("handler-independence", "the same world without RETN/RETI notification handlers differs at boundary %d (with!=without):%s", k+1, d)
			}
		}
		env.Fire("twin-without-notification-handlers")
		env.Steps += uint64(w.Steps)
	}
	if v := c10RunResume(w, env); v != nil {
		return v
	}
	if v := c10DMA(w, env); v != nil {
		return v
	}
	// crash/restart at boundary k: the original continues (= ref), a CPU rebuilt
	// from copies of the durable state must stay equal at every later boundary
	walker := c10Machine(w)
	stride := sc.Stride
	if stride < 1 {
		stride = 1
	}
	only := map[int]bool{}
	for _, k := range sc.Only {
		only[k] = true
	}
	first := true
	for k := 0; k <= w.Steps; k++ {
		if (len(only) == 0 && k%stride == 0) || only[k] {
			if !first {
				env.ExtraEvals++
			}
			first = false
			r := walker.Restore()
			cls := "running"
			switch {
			case r.CPU.Interrupt != nil:
				cls = "request-pending"
			case r.CPU.HALT:
				cls = "halted"
			case r.Bus.Mem[r.CPU.PC] == 0xed && r.Bus.Mem[r.CPU.PC+1]&0xf4 == 0xb0:
				cls = "inside-block-repeat"
			case k > 0 && r.Bus.Mem[r.CPU.PC-1] == 0xfb:
				cls = "right-after-EI"
			case r.Accepted > 0 && r.CPU.PC < 0x100:
				cls = "right-after-acceptance"
			}
			env.Class("restore@%s", cls)
			for j := k; j < w.Steps; j++ {
				r.Step()
				env.Steps++
				sr := sigOf(r)
				sr.halt = ref[j+1].halt // the HALT field is not among the things a Step may depend on; it is not copied, so not compared
				if d := ref[j+1].diff(sr); d != "" {
					return &Violation{Oracle: "restore-divergence", Detail: fmt.Sprintf("CPU rebuilt from States+memory+pending request at boundary %d (%s) differs from the original at boundary %d (original!=restored):%s", k, cls, j+1, d), Hint: k}
				}
			}
			if r.Bus.Mem != refMem {
				return &Violation{Oracle: "restore-divergence", Detail: fmt.Sprintf("CPU rebuilt at boundary %d ends with a different memory image", k), Hint: k}
			}
			env.Fire("crash-restore")
			env.NTPoints++
		}
		if k < w.Steps {
			walker.Step()
		}
	}
	env.NonTrivial = true
	return nil
}

// c10RunResume: a host that drives with Run. The program runs to its final HALT; the host then replaces
// that HALT by a NOP and puts a new HALT three bytes further on (a debugger patching the program, a loader),
// and calls Run again on the same CPU object. A CPU built afresh from States + memory at that moment and Run
// in the same way must end in the same state: nothing but States, memory and the pending request carries over.
func c10RunResume(w *C10World, env *Env) *Violation {
	if w.Kind != "structured" || w.Prog == nil || w.NilIO {
		return nil
	}
	w2 := *w
	w2.Events, w2.Pokes = nil, nil
	m := c10Machine(&w2)
	var budget uint64
	m.Hook = func(mm *world.Machine, _ world.Acc) {
		if budget != 0 && mm.Bus.Tick > budget {
			budget = 0
			panic(&overrun{mm.Bus.Tick})
		}
	}
	run := func(mm *world.Machine) (error, *overrun) {
		budget = mm.Bus.Tick + 400000
		err, over := safeRun(mm.CPU, context.Background())
		budget = 0
		return err, over
	}
	if err, over := run(m); err != nil || over != nil || m.CPU.PC != w.Prog.HaltAddr {
		return nil // (a program that does not park on its final HALT within the budget: not this pass)
	}
	// the same Run on the library's DumbMemory (ports on the same kind of device): what Run does may not
	// depend on which implementation returns the bytes
	{
		d := c10Machine(&w2)
		dm := make(z80.DumbMemory, 65536)
		copy(dm, d.Bus.Mem[:])
		d.CPU.Memory = dm
		type res struct{ err error }
		ch := make(chan res, 1)
		go func() { ch <- res{d.CPU.Run(context.Background())} }()
		select {
		case r := <-ch:
			if r.err != nil || d.CPU.States != m.CPU.States || d.CPU.HALT != m.CPU.HALT {
				return viol("memory-type-independence", "Run to the final HALT on the library's DumbMemory ends differently from the same Run on a plain 64 KiB device with equal contents (device!=DumbMemory): err %v%s", r.err, world.DiffStates(m.CPU.States, d.CPU.States, false))
			}
			for i := range dm {
				if dm[i] != m.Bus.Mem[i] {
					return viol("memory-type-independence", "Run to the final HALT: memory[%04x]=%02x on the plain device, %02x on the library's DumbMemory", i, m.Bus.Mem[i], dm[i])
				}
			}
			env.Fire("run-to-halt-on-DumbMemory")
		case <-time.After(30 * time.Second):
			return viol("memory-type-independence", "Run on the library's DumbMemory did not reach the final HALT within 30 s of real time; on a plain device it parks at %04x", w.Prog.HaltAddr)
		}
	}
	h := w.Prog.HaltAddr
	m.Bus.Mem[h], m.Bus.Mem[h+1], m.Bus.Mem[h+2], m.Bus.Mem[h+3] = 0x00, 0x00, 0x00, 0x76
	r := m.Restore() // new CPU object from States + memory (+ device cursors); the HALT field is not carried over
	r.Hook = m.Hook
	e1, o1 := run(m)
	e2, o2 := run(r)
	if o1 != nil || o2 != nil || e1 != nil || e2 != nil {
		return viol("run-resume", "after the host replaced the final HALT by NOPs and put a HALT at %04x: Run on the original CPU object returned %v (overrun %t), Run on a CPU rebuilt from States + memory returned %v (overrun %t)", h+3, e1, o1 != nil, e2, o2 != nil)
	}
	a, b := sigOf(m), sigOf(r)
	if d := a.diff(b); d != "" {
		return viol("run-resume", "after the host replaced the final HALT by NOPs and put a HALT at %04x, Run on the original CPU object and Run on a CPU rebuilt from States + memory at that moment end differently (original!=rebuilt):%s", h+3, d)
	}
	env.Fire("run-resumed-after-host-patched-the-halt")
	return nil
}

// c10DMA: the host changes memory behind the CPU's back between Steps (DMA, bank switching). One
// run keeps its CPU object throughout; the other throws the CPU object away at EVERY boundary and
// builds a new one from States + pending request over the same devices (a CPU that cannot remember
// anything about memory). Both see the same pokes; they must agree at every boundary.
func c10DMA(w *C10World, env *Env) *Violation {
	if len(w.Pokes) == 0 {
		return nil
	}
	a := c10Machine(w) // continuous
	b := c10Machine(w) // rebuilt before every Step
	for k := 0; k < w.Steps; k++ {
		for _, p := range w.Pokes {
			if p.At == k {
				a.Bus.Mem[p.Addr], b.Bus.Mem[p.Addr] = p.Val, p.Val
			}
		}
		a.Step()
		b.Boundary()
		old := b.CPU
		b.CPU = &z80.CPU{States: old.States, Memory: old.Memory, IO: old.IO, RETNHandler: old.RETNHandler, RETIHandler: old.RETIHandler,
			Interrupt: world.CloneRequest(old.Interrupt), BreakPoints: old.BreakPoints}
		b.StepNoBoundary()
		sa, sb := sigOf(a), sigOf(b)
		sb.halt = sa.halt
		if d := sa.diff(sb); d != "" {
			return viol("dma-coherence", "with the host rewriting memory between Steps (%d pokes), the CPU object that ran continuously differs at boundary %d from CPUs rebuilt from States before every Step (continuous!=rebuilt):%s", len(w.Pokes), k+1, d)
		}
	}
	if a.Bus.Mem != b.Bus.Mem {
		return viol("dma-coherence", "final memory images differ between the continuous and the rebuilt-every-Step run")
	}
	env.Fire("host-dma-pokes")
	env.Steps += 2 * uint64(w.Steps)
	return nil
}

// c10ReuseObject: the host keeps the CPU *object* that has a history behind it
// but resets every public field to the world's initial configuration (fresh
// devices, initial States, no request, HALT false): from there it must behave
// like a new CPU, i.e. like the reference run from boundary 0.
func c10ReuseObject(w *C10World, ref []c10Sig, refMem *[65536]uint8, env *Env) *Violation {
	for _, k := range []int{w.Steps / 3, w.Steps} {
		old := c10Machine(w)
		for i := 0; i < k; i++ {
			old.Step()
		}
		m := c10Machine(w)
		c := old.CPU // the used object
		c.States = m.CPU.States
		c.Memory, c.IO = m.CPU.Memory, m.CPU.IO
		c.RETNHandler, c.RETIHandler = m.CPU.RETNHandler, m.CPU.RETIHandler
		c.Interrupt, c.HALT, c.BreakPoints = nil, false, m.CPU.BreakPoints
		m.CPU = c
		for j := 0; j < w.Steps; j++ {
			m.Step()
			if d := ref[j+1].diff(sigOf(m)); d != "" {
				return viol("object-reuse", "a CPU object that had executed %d Steps of this world, then had every public field reset to the initial configuration, differs from a new CPU at boundary %d (new!=reused):%s", k, j+1, d)
			}
		}
		if m.Bus.Mem != *refMem {
			return viol("object-reuse", "reused CPU object (after %d Steps of history) ends with a different memory image", k)
		}
		env.Fire("cpu-object-reused-after-public-reset")
		env.Steps += uint64(k + w.Steps)
	}
	return nil
}

// streamIO is a plain (non-recording) port device with the Bus's input stream.
type streamIO struct {
	seed uint64
	n    uint64
}

func (s *streamIO) In(p uint8) uint8 {
	v := world.InByte(s.seed, s.n, p)
	s.n++
	return v
}

func (s *streamIO) Out(uint8, uint8) {}

// c10TypeTwin: "the outcome of a Step depends only on the public state and on
// the bytes memory and ports return" - so it cannot depend on which Memory
// implementation returns them. The same world runs on the recording Bus and,
// with equal contents, directly on the library's own DumbMemory (and, for
// short worlds, a fully populated MapMemory); registers, HALT, pending request
// and notifications must agree at every boundary and the images at the end.
// Only boundary-placed events are used (no bus hook exists on the bare types).
func c10TypeTwin(w *C10World, env *Env) *Violation {
	var evs []world.Event
	for _, e := range w.Events {
		if e.AtTick == 0 && !e.OnRet {
			evs = append(evs, e)
		}
	}
	w2 := *w
	w2.Events = evs
	kinds := []string{"DumbMemory"}
	if w.Steps <= 120 {
		kinds = append(kinds, "MapMemory")
	}
	for _, kind := range kinds {
		a := c10Machine(&w2)
		b := c10Machine(&w2)
		a.BoundaryOnly, b.BoundaryOnly = true, true // (only one of the two memories calls back)
		var dm z80.DumbMemory
		var mm z80.MapMemory
		if kind == "DumbMemory" {
			dm = make(z80.DumbMemory, 65536)
			copy(dm, b.Bus.Mem[:])
			b.CPU.Memory = dm
		} else {
			mm = make(z80.MapMemory, 65536)
			for i, x := range b.Bus.Mem {
				mm[uint16(i)] = x
			}
			b.CPU.Memory = mm
		}
		b.CPU.IO = &streamIO{seed: w.IOSeed}
		for k := 0; k < w.Steps; k++ {
			a.Step()
			b.Step()
			if d := world.DiffStates(a.CPU.States, b.CPU.States, false); d != "" || a.CPU.HALT != b.CPU.HALT ||
				!world.SameRequest(a.CPU.Interrupt, b.CPU.Interrupt) || a.Cnt.RETI != b.Cnt.RETI || a.Cnt.RETN != b.Cnt.RETN {
				return viol("memory-type-independence", "after Step %d the CPU on the library's %s differs from the same CPU on a plain 64 KiB device with equal contents (device!=%s):%s HALT %t/%t pending %s/%s", k, kind, kind, d, a.CPU.HALT, b.CPU.HALT, world.FmtRequest(a.CPU.Interrupt), world.FmtRequest(b.CPU.Interrupt))
			}
		}
		for i := 0; i < 65536; i++ {
			var x uint8
			if kind == "DumbMemory" {
				x = dm[i]
			} else {
				x = mm.Get(uint16(i))
			}
			if x != a.Bus.Mem[i] {
				return viol("memory-type-independence", "final image differs at %04x between the plain device (%02x) and the library's %s (%02x)", i, a.Bus.Mem[i], kind, x)
			}
		}
		env.Fire("type-twin/" + kind)
		env.Steps += 2 * uint64(w.Steps)
	}
	// port side: a neutral static port array vs the library's DumbIO with equal contents
	{
		a := c10Machine(&w2)
		b := c10Machine(&w2)
		a.BoundaryOnly, b.BoundaryOnly = true, true
		pm := &plainMem{}
		pm.b = a.Bus.Mem
		pio := &plainIO{}
		dio := make(z80.DumbIO, 256)
		rr := world.NewRng(w.IOSeed)
		for i := range pio.b {
			pio.b[i] = rr.Byte()
			dio[i] = pio.b[i]
		}
		dm := make(z80.DumbMemory, 65536)
		copy(dm, b.Bus.Mem[:])
		a.CPU.Memory, a.CPU.IO = pm, pio
		b.CPU.Memory, b.CPU.IO = dm, dio
		for k := 0; k < w.Steps; k++ {
			a.Step()
			b.Step()
			if d := world.DiffStates(a.CPU.States, b.CPU.States, false); d != "" || a.CPU.HALT != b.CPU.HALT || !world.SameRequest(a.CPU.Interrupt, b.CPU.Interrupt) {
				return viol("memory-type-independence", "after Step %d the CPU on the library's DumbMemory+DumbIO differs from the same CPU on neutral array devices with equal contents:%s", k, d)
			}
		}
		for i := range pio.b {
			if pio.b[i] != dio[i] {
				return viol("memory-type-independence", "port %02x holds %02x on the neutral device and %02x on DumbIO at the end", i, pio.b[i], dio[i])
			}
		}
		for i := range pm.b {
			if pm.b[i] != dm[i] {
				return viol("memory-type-independence", "final image differs at %04x between the neutral device (%02x) and DumbMemory (%02x)", i, pm.b[i], dm[i])
			}
		}
		env.Fire("type-twin/DumbIO")
	}
	return nil
}

type plainMem struct{ b [65536]uint8 }

func (m *plainMem) Get(a uint16) uint8    { return m.b[a] }
func (m *plainMem) Set(a uint16, v uint8) { m.b[a] = v }

type plainIO struct{ b [256]uint8 }

func (p *plainIO) In(a uint8) uint8     { return p.b[a] }
func (p *plainIO) Out(a uint8, v uint8) { p.b[a] = v }

// solo runs one world alone.
func c10Solo(w *C10World) (c10Sig, *[65536]uint8) {
	m := c10Machine(w)
	for k := 0; k < w.Steps; k++ {
		m.Step()
	}
	return sigOf(m), &m.Bus.Mem
}

func c10Interleave(sc *C10Sc, env *Env) *Violation {
	n := len(sc.Worlds)
	if sc.Worlds[0].NilIO {
		env.Fire("worlds-without-io-device")
	}
	solo := make([]c10Sig, n)
	soloMem := make([]*[65536]uint8, n)
	for i := range sc.Worlds {
		solo[i], soloMem[i] = c10Solo(&sc.Worlds[i])
	}
	type cpuT struct {
		m    *world.Machine
		gate chan struct{}
		done bool
	}
	cpus := make([]*cpuT, n)
	parked := make(chan int) // a goroutine announces that it is parked (or finished: negative)
	// current = the CPU whose goroutine the scheduler released last; exactly one
	// goroutine runs at a time, so reads and writes of these variables are ordered
	// by the channel operations.
	current := -1
	var cross, crashed string
	for i := range sc.Worlds {
		c := &cpuT{m: c10Machine(&sc.Worlds[i]), gate: make(chan struct{})}
		cpus[i] = c
		idx := i
		c.m.Hook = func(_ *world.Machine, a world.Acc) {
			if current != idx {
				// the running CPU reached another CPU's devices: that is the violation
				// itself; do not park (the owner of this bus is not the one running)
				if cross == "" {
					cross = fmt.Sprintf("while CPU %d was running, an access %s arrived at the memory/ports of CPU %d", current, a, idx)
				}
				return
			}
			parked <- idx
			<-c.gate
		}
	}
	for i := range cpus {
		c, w := cpus[i], &sc.Worlds[i]
		idx := i
		go func() {
			defer func() {
				if r := recover(); r != nil && crashed == "" {
					crashed = fmt.Sprintf("CPU %d panicked while interleaved: %v", idx, r)
				}
				parked <- -1 - idx
			}()
			<-c.gate
			for k := 0; k < w.Steps; k++ {
				c.m.Step()
			}
		}()
	}
	active := make([]int, n)
	for i := range active {
		active[i] = i
	}
	var schedHash uint64
	pi := 0
	switches := 0
	last := -1
	for len(active) > 0 {
		p := 0
		if len(sc.Picks) > 0 {
			p = int(sc.Picks[pi%len(sc.Picks)]) % len(active)
			pi++
		}
		id := active[p]
		if id != last {
			switches++
			last = id
		}
		schedHash = world.Mix64(schedHash, uint64(id))
		current = id
		cpus[id].gate <- struct{}{}
		got := <-parked
		if got < 0 {
			fin := -1 - got
			for j, a := range active {
				if a == fin {
					active = append(active[:j], active[j+1:]...)
					break
				}
			}
		}
	}
	if cross != "" {
		return viol("isolation", "%s", cross)
	}
	if crashed != "" {
		return viol("isolation", "%s (every CPU runs alone without panic)", crashed)
	}
	for i, c := range cpus {
		if d := solo[i].diff(sigOf(c.m)); d != "" {
			return viol("isolation", "CPU %d of %d interleaved with the others differs from its solo run (solo!=interleaved):%s", i, n, d)
		}
		if *soloMem[i] != c.m.Bus.Mem {
			return viol("isolation", "CPU %d of %d interleaved with the others ends with a different memory image", i, n)
		}
		env.Steps += uint64(c.m.Steps)
		env.Ticks += c.m.Bus.Tick
	}
	env.FireN("context-switch-at-bus-access", uint64(switches))
	env.Class("interleave/cpus=%d", n)
	env.Class("sched/%x", schedHash&0xffff)
	env.NonTrivial = switches > n
	return nil
}

// allAddrs is a breakpoint set containing every address: Run then returns after exactly one Step.
var allAddrs = func() map[uint16]struct{} {
	m := make(map[uint16]struct{}, 65536)
	for i := 0; i < 65536; i++ {
		m[uint16(i)] = struct{}{}
	}
	return m
}()

// c10Free: the race side-car. Free-running goroutines; the verdict on races
// is the race detector's (the worker process fails); isolation is also
// compared with the solo runs.
func c10Free(sc *C10Sc, env *Env) *Violation {
	n := len(sc.Worlds)
	if sc.Worlds[0].NilIO {
		env.Fire("worlds-without-io-device")
	}
	solo := make([]c10Sig, n)
	got := make([]c10Sig, n)
	// the concurrent phase comes first: anything the library initialises lazily must
	// happen on the free-running goroutines, not on this one beforehand
	// host-owned request values shared by all CPUs of the scenario (read-only for everybody)
	shared := map[string]*z80.Interrupt{}
	for i := range sc.Worlds {
		for _, e := range sc.Worlds[i].Events {
			if k := e.Kind + "/" + e.Data; shared[k] == nil {
				shared[k] = e.Request()
			}
		}
	}
	var wg sync.WaitGroup
	for i := range sc.Worlds {
		wg.Add(1)
		go func(i int) {
			defer wg.Done()
			m := c10Machine(&sc.Worlds[i])
			m.ReuseRequests, m.SharedRequests = true, shared
			w := &sc.Worlds[i]
			if sc.UseRun {
				// the CPUs are inside Run concurrently: each Run is ended after exactly w.Steps Steps by a
				// breakpoint set covering every address that the device installs at the boundary (tick of the
				// solo run) - simpler: Run one Step at a time with an all-addresses breakpoint set
				m.CPU.BreakPoints = allAddrs
				for k := 0; k < w.Steps; k++ {
					m.Boundary()
					m.Bus.ResetLog()
					if i%2 == 1 {
						// the usual host pattern: a context per call, released right after the call
						ctx, cancel := context.WithCancel(context.Background())
						_ = m.CPU.Run(ctx)
						cancel()
					} else {
						_ = m.CPU.Run(context.Background())
					}
					m.Steps++
				}
				m.CPU.BreakPoints = nil
			} else {
				for k := 0; k < w.Steps; k++ {
					m.Step()
				}
			}
			got[i] = sigOf(m)
		}(i)
	}
	wg.Wait()
	for i := range sc.Worlds {
		solo[i], _ = c10Solo(&sc.Worlds[i])
		if sc.UseRun {
			// Run clears the HALT field on entry and the acceptance bookkeeping differs: compare what Step and
			// one-Step Runs must share
			solo[i].halt, got[i].halt = false, false
		}
	}
	for i := range got {
		if d := solo[i].diff(got[i]); d != "" {
			return viol("isolation-free-running", "CPU %d of %d running concurrently differs from its solo run:%s", i, n, d)
		}
		env.Steps += uint64(sc.Worlds[i].Steps)
		env.Ticks += got[i].tick
	}
	env.Fire("free-running-world-under-race-detector")
	env.Class("free/cpus=%d", n)
	env.NonTrivial = true
	return nil
}

func (c10) Shrink(sci interface{}, v *Violation) []interface{} {
	p := c10{}
	sc := sci.(*C10Sc)
	var out []interface{}
	if sc.Mode == "restore" {
		if k, ok := v.Hint.(int); ok && len(sc.Only) != 1 {
			n := Clone(p, sc).(*C10Sc)
			n.Only = []int{k}
			out = append(out, n)
		}
		w := sc.Worlds[0]
		for i := range w.Events {
			n := Clone(p, sc).(*C10Sc)
			n.Worlds[0].Events = append(n.Worlds[0].Events[:i], n.Worlds[0].Events[i+1:]...)
			out = append(out, n)
		}
		if w.Steps > 2 {
			n := Clone(p, sc).(*C10Sc)
			n.Worlds[0].Steps = w.Steps * 3 / 4
			out = append(out, n)
		}
		if w.Prog != nil {
			for ci := range w.Prog.Code {
				for ii := len(w.Prog.Code[ci].Ins) - 1; ii >= 0; ii-- {
					s := w.Prog.Code[ci].Ins[ii]
					nop := gen.NopIns(s)
					if s == nop {
						continue
					}
					n := Clone(p, sc).(*C10Sc)
					n.Worlds[0].Prog.Code[ci].Ins[ii] = nop
					out = append(out, n)
				}
			}
		}
		return out
	}
	for i := range sc.Worlds {
		if len(sc.Worlds) > 2 {
			n := Clone(p, sc).(*C10Sc)
			n.Worlds = append(n.Worlds[:i], n.Worlds[i+1:]...)
			out = append(out, n)
		}
	}
	for i := range sc.Worlds {
		if sc.Worlds[i].Steps > 2 {
			n := Clone(p, sc).(*C10Sc)
			n.Worlds[i].Steps /= 2
			out = append(out, n)
		}
		if len(sc.Worlds[i].Events) > 0 {
			n := Clone(p, sc).(*C10Sc)
			n.Worlds[i].Events = nil
			out = append(out, n)
		}
	}
	if len(sc.Picks) > 1 {
		n := Clone(p, sc).(*C10Sc)
		n.Picks = n.Picks[:len(n.Picks)/2]
		out = append(out, n)
	}
	return out
}
