package props

import (
	"encoding/hex"
	"fmt"
	"strings"

	"github.com/koron-go/z80"
	"github.com/koron-go/z80/verifsim/model"
	"github.com/koron-go/z80/verifsim/world"
)

// C06 — interrupt requests are accepted, refused, dispatched and retired per
// the rules. Lock-step against the abstract interrupt-controller model.

// C06Sc is a C06 scenario.
type C06Sc struct {
	Family string        `json:"family"` // single | history
	Regs   world.Regs    `json:"regs"`
	Halted bool          `json:"halted"` // parked on an executed HALT at PC
	Image  []world.Seg   `json:"image"`  // everything else is NOP (00)
	Events []world.Event `json:"events"`
	Steps  int           `json:"steps"`
	// NilHandlers: no notification handlers registered (nil interface values)
	NilHandlers bool `json:"nil_handlers,omitempty"`
	// Swap: host replaces cpu.Memory/cpu.IO by equal-content devices before every Step (1) or copies the CPU struct too (2)
	Swap int `json:"swap,omitempty"`
	// Dumb: the CPU runs directly on the library's DumbMemory (64 KiB) - no memory history, events at
	// boundaries and on notifications only; registers, stack bytes and the slot are compared as usual
	Dumb bool `json:"dumb,omitempty"`
}

type c06 struct{}

func init() { Register(c06{}) }

func (c06) ID() string       { return "C06" }
func (c06) New() interface{} { return &C06Sc{} }

// mini-ISA fragments
var (
	miNOP  = []uint8{0x00}
	miEI   = []uint8{0xfb}
	miDI   = []uint8{0xf3}
	miHALT = []uint8{0x76}
	miRET  = []uint8{0xc9}
	miRETN = []uint8{0xed, 0x45}
	miRETI = []uint8{0xed, 0x4d}
	miIM   = [][]uint8{{0xed, 0x46}, {0xed, 0x56}, {0xed, 0x5e}}
	miLDIA = []uint8{0xed, 0x47}
)

func c06Pad(r *world.Rng, maxLen int, nmi bool, mode int) []uint8 {
	var b []uint8
	for n := r.Intn(3); n > 0; n-- {
		switch r.Intn(8) {
		case 0:
			b = append(b, miEI...)
		case 1:
			b = append(b, miDI...)
		case 2:
			if r.Chance(3, 4) {
				b = append(b, miIM[mode]...)
			} else {
				b = append(b, miIM[r.Intn(3)]...)
			}
		default:
			b = append(b, miNOP...)
		}
	}
	var tail []uint8
	x := r.Intn(10)
	if nmi {
		switch {
		case x < 6:
			tail = miRETN
		case x < 7:
			tail = miRETI
		case x < 8:
			tail = miRET
		case x < 9:
			tail = append(append([]uint8{}, miEI...), miRETN...)
		default:
			tail = append(append([]uint8{}, miEI...), miRETI...)
		}
	} else {
		switch {
		case x < 5:
			tail = append(append([]uint8{}, miEI...), miRETI...)
		case x < 6:
			tail = miRETI
		case x < 8:
			tail = miRETN
		case x < 9:
			tail = miRET
		default:
			tail = append(append([]uint8{}, miEI...), miRETN...)
		}
	}
	if len(b)+len(tail) > maxLen {
		b = b[:0]
	}
	return append(b, tail...)
}

func (c06) Gen(r *world.Rng, tier string, n int) interface{} {
	sc := &C06Sc{}
	single := n%3 != 2 // two thirds single-event family, cycled; one third histories
	combo := (n / 3 * 2) + n%3
	if !single {
		combo = int(r.U64() % 48)
	}
	combo %= 48
	isNMI := combo&1 == 1
	mode := (combo >> 1) % 3
	iff1 := (combo/6)&1 == 1
	iff2 := (combo/12)&1 == 1
	halted := (combo/24)&1 == 1

	regs := world.Regs{AF: uint16(r.Byte()) << 8, IM: mode, IFF1: iff1, IFF2: iff2, I: uint8(r.Range(0x20, 0xef)), R: r.Byte()}
	if r.Chance(1, 10) {
		regs.I = []uint8{0x00, 0xff, 0x01, 0xfe}[r.Intn(4)] // vector table in the first / last page (0xFFFE/0xFFFF + wrap)
	}
	switch r.Intn(8) {
	case 0:
		regs.SP = r.PickU16(0x0000, 0x0001, 0x0002, 0xffff)
	default:
		regs.SP = uint16(r.Range(0x8100, 0xefff))
	}
	switch r.Intn(8) {
	case 0:
		regs.PC = r.PickU16(0xffff, 0xfffe, 0xfffd, 0xfffc)
	case 1:
		regs.PC = uint16(r.Range(0xff80, 0xfffb))
	default:
		regs.PC = uint16(r.Range(0x0100, 0x3fff))
	}
	sc.Regs = regs
	sc.Halted = halted
	sc.NilHandlers = r.Chance(1, 8)
	if r.Chance(1, 8) {
		sc.Swap = r.Range(1, 2)
	} else if r.Chance(1, 8) {
		sc.Dumb = true
	}

	t2 := uint16(r.Range(0x4000, 0x5fff))
	tc := uint16(r.Range(0x6000, 0x7fff))
	subs := []uint16{uint16(r.Range(0x7000, 0x77ff)), uint16(r.Range(0x7800, 0x7fff))}
	vec := uint8(r.Intn(128) * 2)
	if r.Chance(1, 6) {
		vec = []uint8{0x00, 0xfe, 0xfc, 0x02}[r.Intn(4)]
	}

	var segs []world.Seg
	for t := 0; t < 8; t++ {
		segs = append(segs, world.MkSeg(uint16(t*8), c06Pad(r, 8, false, mode)))
	}
	segs = append(segs, world.MkSeg(0x0066, c06Pad(r, 12, true, mode)))
	segs = append(segs, world.MkSeg(t2, c06Pad(r, 12, false, mode)))
	segs = append(segs, world.MkSeg(tc, c06Pad(r, 12, false, mode)))
	for _, s := range subs {
		segs = append(segs, world.MkSeg(s, c06Pad(r, 12, r.Chance(1, 3), mode)))
	}
	// mode-2 table entry
	segs = append(segs, world.MkSeg(uint16(regs.I)<<8|uint16(vec), []uint8{uint8(t2), uint8(t2 >> 8)}))

	// main program
	var prog []uint8
	if halted {
		prog = append(prog, miHALT...)
	}
	plen := r.Range(6, 28)
	if single {
		plen = r.Range(2, 8)
	}
	longSled := !single && n%24 == 2 // (decided from n so that it is known before the events are drawn)
	if longSled {
		prog = append(prog, miEI...)
		for i := 0; i < 300; i++ {
			prog = append(prog, miNOP...)
		}
	}
	for i := 0; i < plen; i++ {
		x := r.Intn(100)
		switch {
		case x < 27:
			prog = append(prog, miNOP...)
		case x < 30:
			prog = append(prog, []uint8{0xdd, 0xfd}[r.Intn(2)], 0x00) // dangling index prefix + NOP
		case x < 47:
			prog = append(prog, miEI...)
		case x < 55:
			prog = append(prog, miDI...)
		case x < 61:
			if r.Chance(4, 5) {
				prog = append(prog, miIM[mode]...)
			} else {
				prog = append(prog, miIM[r.Intn(3)]...)
			}
		case x < 64:
			prog = append(prog, 0x3e, regs.I)
			prog = append(prog, miLDIA...)
		case x < 66:
			prog = append(prog, 0x3e, uint8(r.Range(0x20, 0xef)))
			prog = append(prog, miLDIA...)
			if r.Bool() {
				prog = append(prog, 0xed, 0x57) // LD A,I: reads the flip-flops into P/V - and nothing else
			}
		case x < 76:
			s := subs[r.Intn(2)]
			prog = append(prog, 0xcd, uint8(s), uint8(s>>8))
		case x < 81:
			prog = append(prog, 0xc7|uint8(r.Intn(8))<<3)
		case x < 83:
			prog = append(prog, miRET...)
		case x < 86:
			prog = append(prog, miRETI...)
		case x < 89:
			prog = append(prog, miRETN...)
		case x < 92:
			s := subs[r.Intn(2)]
			prog = append(prog, 0xc3, uint8(s), uint8(s>>8))
		case x < 95:
			prog = append(prog, miHALT...)
		case x < 98:
			// a repeating search: PC stays on it Step after Step (BC, HL, A are whatever the scenario's
			// registers say) - a request that turns up between two repetitions is examined like any other
			prog = append(prog, 0xed, []uint8{0xb1, 0xb9}[r.Intn(2)])
		default:
			prog = append(prog, miNOP...)
		}
	}
	prog = append(prog, miHALT...)
	segs = append(segs, world.MkSeg(regs.PC, prog))
	sc.Image = segs

	mkData := func() string {
		switch mode {
		case 2:
			return hex.EncodeToString([]uint8{vec})
		case 0:
			switch x := r.Intn(12); {
			case x < 6:
				return hex.EncodeToString([]uint8{0xc7 | uint8(r.Intn(8))<<3})
			case x < 7:
				return hex.EncodeToString(append([]uint8{0xc7 | uint8(r.Intn(8))<<3}, r.Bytes(r.Range(1, 2))...)) // RST + padding
			case x < 10:
				return hex.EncodeToString([]uint8{0xcd, uint8(tc), uint8(tc >> 8)})
			case x < 11:
				return hex.EncodeToString([]uint8{0xc3, uint8(tc), uint8(tc >> 8)}) // JP nn: the supplied instruction need not push
			default:
				if r.Chance(1, 3) {
					return hex.EncodeToString([]uint8{0xed, []uint8{0x4d, 0x45}[r.Intn(2)]}) // RETI / RETN on the bus
				}
				return hex.EncodeToString(append([]uint8{0xc9}, r.Bytes(r.Intn(3))...)) // RET (+ padding): reads the stack in memory
			}
		default:
			if r.Bool() {
				return ""
			}
			return hex.EncodeToString([]uint8{r.Byte()})
		}
	}

	if single {
		sc.Family = "single"
		sc.Steps = r.Range(3, 14)
		ev := world.Event{Kind: world.EvINT, Data: mkData(), Boundary: 0}
		if isNMI {
			ev = world.Event{Kind: world.EvNMI, Boundary: 0}
		} else if mode == 0 && r.Chance(1, 6) {
			// accepted at the boundary directly in front of the service routine: the supplied
			// RST/CALL's target is the address right behind the overlaid bytes (PC+len)
			d, _ := hex.DecodeString(ev.Data)
			target := tc
			if len(d) == 1 {
				target = uint16(d[0] & 0x38)
			}
			np := target - uint16(len(d))
			sc.Image[len(sc.Image)-1].Addr = np // the main program moves with PC
			sc.Regs.PC = np
		}
		sc.Events = []world.Event{ev}
		return sc
	}
	sc.Family = "history"
	sc.Steps = r.Range(8, 40)
	ne := r.Range(1, 4)
	if strings.HasPrefix(tier, "thorough") && r.Chance(1, 3) {
		sc.Steps = r.Range(40, 90)
		ne = r.Range(3, 7)
	}
	long := n%24 == 2
	if long {
		// long quiet stretches: the refresh counter wraps (128 fetches) between the enabling EI and the request
		sc.Steps = r.Range(130, 300)
	}
	for i := 0; i < ne; i++ {
		ev := world.Event{Kind: world.EvINT, Data: mkData()}
		if r.Chance(35, 100) {
			ev = world.Event{Kind: world.EvNMI}
		}
		switch x := r.Intn(100); {
		case long && x < 60:
			ev.Boundary = []int{128, 129, 130, 256, 257, 127, r.Intn(sc.Steps)}[r.Intn(7)] + r.Intn(6)
		case x < 60:
			ev.Boundary = r.Intn(sc.Steps)
		case x < 85:
			ev.AtTick = uint64(r.Range(1, 2*sc.Steps))
		default:
			if sc.NilHandlers {
				ev.Boundary = r.Intn(sc.Steps)
			} else {
				ev.OnRet = true
			}
		}
		sc.Events = append(sc.Events, ev)
	}
	return sc
}

func toModelReq(q *z80.Interrupt) *model.Req {
	if q == nil {
		return nil
	}
	return &model.Req{NMI: q.Type == z80.NMIType, Data: append([]uint8(nil), q.Data...)}
}

func (c06) Exec(sci interface{}, env *Env) *Violation {
	sc := sci.(*C06Sc)
	m, err := world.NewMachine(sc.Regs, sc.Image, 1, sc.Events)
	if err != nil {
		return viol("harness", "bad scenario: %v", err)
	}
	m.CPU.HALT = sc.Halted
	m.ReuseRequests = sc.Regs.R&1 == 1 // the host keeps one request value per kind and re-presents the same pointer
	if sc.NilHandlers {
		m.CPU.RETNHandler, m.CPU.RETIHandler = nil, nil
	}
	var dm z80.DumbMemory
	if sc.Dumb {
		dm = make(z80.DumbMemory, 65536)
		copy(dm, m.Bus.Mem[:])
		m.CPU.Memory = dm
		env.Fire("on-library-DumbMemory")
	}
	base := m.Bus.Mem // copy: immutable base image of the model
	ms := []*model.IntState{{
		IFF1: sc.Regs.IFF1, IFF2: sc.Regs.IFF2, IM: sc.Regs.IM, I: sc.Regs.I, A: uint8(sc.Regs.AF >> 8),
		PC: sc.Regs.PC, SP: sc.Regs.SP,
		Mem: &model.SparseMem{Base: &base, W: map[uint16]uint8{}},
	}}
	depth := 0
	for step := 0; step < sc.Steps; step++ {
		m.Boundary()
		if sc.Swap != 0 {
			m.SwapDevices(sc.Swap == 2)
		}
		cpu := m.CPU
		req := cpu.Interrupt
		nPres := len(m.Presented)
		before := cpu.States

		// statement-silent corners: stop comparing (no verdict either way)
		if req != nil && req.Type != z80.NMIType && before.IFF1 {
			switch before.IM {
			case 0:
				// a supplied RET whose stack bytes lie at PC..PC+len-1: the statement does not say whether
				// they come from memory or from the device (writes into that range must reach memory:
				// repaired defect D6)
				l := uint16(len(req.Data))
				if l > 0 && (req.Data[0] == 0xc9 || req.Data[0] == 0xed) && (before.SP-before.PC < l || (before.SP+1)-before.PC < l) {
					env.Class("stop/sp-in-overlay")
					return nil
				}
				if (before.SP-1)-before.PC < l || (before.SP-2)-before.PC < l {
					env.Fire("mode0-push-lands-on-interrupted-pc")
				}
			case 2:
				if len(req.Data) == 0 || req.Data[0]&1 == 1 {
					env.Class("stop/odd-or-empty-vector")
					return nil
				}
				// the pushed word lands on the table entry itself: "pushes PC and jumps to the word stored at
				// I*256+vector" does not say which contents count then (read first or pushed first)
				t := uint16(before.IR.Hi)<<8 | uint16(req.Data[0])
				if a, b := before.SP-1, before.SP-2; a == t || a == t+1 || b == t || b == t+1 {
					env.Class("stop/sp-on-im2-table")
					return nil
				}
			}
			if before.IM == 0 && len(req.Data) == 0 {
				env.Class("stop/empty-im0")
				return nil
			}
		}

		// twin without the request, for refusal Steps
		var twin *z80.CPU
		var twinBus *world.Overlay
		mayRefuse := req != nil && req.Type != z80.NMIType
		if mayRefuse {
			// executed now, before the real Step changes memory (copy-on-write view)
			twinBus = world.NewOverlay(m.Bus)
			tc := &world.Counter{}
			twin = &z80.CPU{States: before, Memory: twinBus, IO: twinBus, RETNHandler: tc, RETIHandler: tc, HALT: cpu.HALT}
			twin.Step()
		}

		reqModel := toModelReq(req) // by value, taken before the Step: the library has no business writing into it
		reqCopy := world.CloneRequest(req)
		si := m.StepNoBoundary()
		env.Steps++
		if dm != nil {
			copy(m.Bus.Mem[:], dm) // the image lives in the library type: mirror it for the comparisons below
		}
		if m.Mutated != "" {
			return viol("request-value-modified", "%s; step %d", m.Mutated, step)
		}
		if req != nil && !si.Accepted && !world.SameRequest(req, reqCopy) {
			// only for a request that was NOT consumed ("a refused request changes nothing"); what the library
			// does to a value it has consumed shows up when the host presents that value again (Machine.Mutated)
			return viol("request-value-modified", "the Step wrote into the refused request it was given: %s before, %s after", world.FmtRequest(reqCopy), world.FmtRequest(req))
		}

		var cands []*model.IntState
		for _, s := range ms {
			cands = append(cands, s.Next(reqModel)...)
		}
		// a state the model cannot follow ends the comparison
		anyUnknown := false
		for _, c := range cands {
			if c.Last == model.KUnknown {
				anyUnknown = true
			}
		}
		if anyUnknown {
			env.Class("stop/unknown-opcode")
			return nil
		}
		consumed := si.Accepted // (decided from the bus history when a device wrote the slot during the Step)
		var match []*model.IntState
		firstDiff, bestN := "", 0
		for _, c := range cands {
			if c.Last == model.KUnknown {
				continue
			}
			nretn, nreti := m.Cnt.RETN, m.Cnt.RETI
			if sc.NilHandlers {
				nretn, nreti = c.NRETN, c.NRETI // nothing to observe
			}
			d := c.Diff(cpu.IFF1, cpu.IFF2, cpu.IM, cpu.IR.Hi, cpu.PC, cpu.SP, nretn, nreti)
			if req != nil && c.Consumed != consumed {
				d += fmt.Sprintf(" request-consumed: model=%t cpu=%t", c.Consumed, consumed)
			}
			if d == "" {
				match = append(match, c)
			} else if nd := strings.Count(d, ": model="); firstDiff == "" || nd < bestN {
				bestN = nd
				firstDiff = fmt.Sprintf("model transition %s:%s", c.Last, d)
			}
		}
		ctx := func() string {
			return fmt.Sprintf("step %d: request=%s before{%s halted=%t} after{%s} bus=%s", step, world.FmtRequest(req), world.FmtStates(before), sc.Halted && before.PC == sc.Regs.PC, world.FmtStates(cpu.States), world.FmtLog(m.Bus.Log))
		}
		if len(match) == 0 {
			return viol("intmodel-lockstep", "%s; %s", firstDiff, ctx())
		}
		if m.StaleCount() != 0 {
			return viol("stale-device", "%d accesses went to a Memory/IO value the host had already replaced; %s", m.StaleCount(), ctx())
		}
		if m.Mutated != "" {
			return viol("request-value-modified", "%s; %s", m.Mutated, ctx())
		}
		c := match[0]

		// the slot after the Step
		switch {
		case req != nil && c.Consumed && si.PostedDuring:
			// a request a device posted in the middle of the acceptance: kept for the next Step or dropped
			// with the served one - no statement says which
			if cpu.Interrupt != nil && (len(m.Presented) == nPres || cpu.Interrupt != m.Presented[len(m.Presented)-1]) {
				return viol("slot-untouched", "slot after an acceptance during which a device posted a request = %s: neither empty nor that request; %s", world.FmtRequest(cpu.Interrupt), ctx())
			}
		case req != nil && c.Consumed:
			if cpu.Interrupt != nil {
				return viol("slot-untouched", "slot after an acceptance = %s although no device posted anything during the Step; %s", world.FmtRequest(cpu.Interrupt), ctx())
			}
		case req != nil && !c.Consumed:
			if len(m.Presented) > nPres {
				// the controller only presents into an EMPTY slot: the library emptied the slot of a refused
				// request while the instruction ran, a device callback posted another request into it, and
				// one slot cannot hold both afterwards
				return viol("refused-stays-pending", "while a refused request was pending the slot was found empty by a device callback, which posted %s; afterwards the slot holds %s - one of the two requests is lost; %s", world.FmtRequest(m.Presented[len(m.Presented)-1]), world.FmtRequest(cpu.Interrupt), ctx())
			}
			if !world.SameRequest(cpu.Interrupt, req) {
				return viol("refused-stays-pending", "slot after refusal = %s, want %s; %s", world.FmtRequest(cpu.Interrupt), world.FmtRequest(req), ctx())
			}
		case req == nil:
			var want *z80.Interrupt
			if len(m.Presented) > nPres {
				want = m.Presented[len(m.Presented)-1]
			}
			if !world.SameRequest(cpu.Interrupt, want) {
				return viol("slot-untouched", "slot after a Step without request = %s, want %s; %s", world.FmtRequest(cpu.Interrupt), world.FmtRequest(want), ctx())
			}
		}

		// memory: every byte written on the bus and the model's push cells
		if c.PushFree {
			// mode 0 RST/CALL: the stored word is C07's subject (known finding: PC+len instead of PC); here only
			// "one of those two" is demanded, so that a third value - e.g. only at a PC wrap - is still seen
			pushed := uint16(m.Bus.Mem[before.SP-1])<<8 | uint16(m.Bus.Mem[before.SP-2])
			ilen := 1 // RST
			if reqCopy.Data[0] == 0xcd {
				ilen = 3
			}
			if off := pushed - before.PC; off != 0 && int(off) != ilen {
				return viol("im0-pushed-word", "mode-0 acceptance at PC=%04x with data %x stored %04x: neither PC nor PC + the length of the supplied instruction; %s", before.PC, reqCopy.Data, pushed, ctx())
			}
			c.Mem.Set(before.SP-1, m.Bus.Mem[before.SP-1])
			c.Mem.Set(before.SP-2, m.Bus.Mem[before.SP-2])
		}
		chk := []uint16{before.SP - 1, before.SP - 2}
		for _, a := range m.Bus.Log {
			if a.Kind == world.MW {
				chk = append(chk, a.Addr)
			}
		}
		for _, a := range chk {
			if m.Bus.Mem[a] != c.Mem.Get(a) {
				return viol("stack-bytes", "memory[%04x]=%02x, model %02x after %s; %s", a, m.Bus.Mem[a], c.Mem.Get(a), c.Last, ctx())
			}
		}

		// acceptance Step: bus history shows the pushes (and table reads) only
		if c.Consumed && dm != nil {
			depth++
			env.Fire("accept/" + c.Last.String())
		}
		if c.Consumed && dm == nil {
			var wr, rd []world.Acc
			for _, a := range m.Bus.Log {
				switch a.Kind {
				case world.MW:
					wr = append(wr, a)
				case world.MR:
					rd = append(rd, a)
				default:
					return viol("acceptance-bus", "port access in an acceptance Step; %s", ctx())
				}
			}
			okW := len(wr) == 2 && ((wr[0].Addr == before.SP-1 && wr[1].Addr == before.SP-2) || (wr[0].Addr == before.SP-2 && wr[1].Addr == before.SP-1))
			im0ret := c.Last == model.KAcceptIM0 && (reqCopy.Data[0] == 0xc9 || reqCopy.Data[0] == 0xed) // RET, RETI, RETN
			if c.Last == model.KAcceptIM0 && (reqCopy.Data[0] == 0xc3 || im0ret) {
				okW = len(wr) == 0 // a supplied JP nn / RET stores nothing
			}
			if !okW {
				return viol("acceptance-bus", "acceptance must write exactly SP-1 and SP-2; %s", ctx())
			}
			switch c.Last {
			case model.KAcceptIM2:
				t := uint16(before.IR.Hi)<<8 | uint16(reqCopy.Data[0]&0xfe)
				ok := len(rd) == 2 && ((rd[0].Addr == t && rd[1].Addr == t+1) || (rd[0].Addr == t+1 && rd[1].Addr == t))
				if !ok {
					return viol("acceptance-bus", "mode 2 must read exactly the two table bytes at %04x; %s", t, ctx())
				}
			default:
				if im0ret {
					if !(len(rd) == 2 && ((rd[0].Addr == before.SP && rd[1].Addr == before.SP+1) || (rd[0].Addr == before.SP+1 && rd[1].Addr == before.SP))) {
						return viol("acceptance-bus", "a supplied RET reads exactly the two stack bytes at SP, SP+1 from memory (reads: %s); %s", world.FmtLog(rd), ctx())
					}
				} else if len(rd) != 0 {
					return viol("acceptance-bus", "no program instruction may be fetched in an acceptance Step (reads: %s); %s", world.FmtLog(rd), ctx())
				}
			}
			depth++
			env.Fire("accept/" + c.Last.String())
			if c.Last == model.KAcceptIM0 {
				switch d := reqCopy.Data; {
				case d[0] == 0xed:
					env.Fire("mode0-supplied-RETI/RETN")
				case d[0] == 0xc9:
					env.Fire("mode0-supplied-RET")
				case d[0] == 0xc3:
					env.Fire("mode0-supplied-JP")
				case d[0]&0xc7 == 0xc7 && len(d) > 1, d[0] == 0xcd && len(d) > 3:
					env.Fire("mode0-data-with-padding")
				}
			}
		}

		// refusal (or executing the instruction after EI first): identical to
		// the same Step without any request
		if mayRefuse && !c.Consumed {
			if d := world.DiffStates(twin.States, cpu.States, false); d != "" {
				return viol("refusal-changes-nothing", "Step with a refused request differs from the same Step without request:%s; %s", d, ctx())
			}
			if dm == nil && world.FmtLog(twinBus.Log) != world.FmtLog(m.Bus.Log) {
				return viol("refusal-changes-nothing", "bus history with a refused request %s differs from the same Step without request %s; %s", world.FmtLog(m.Bus.Log), world.FmtLog(twinBus.Log), ctx())
			}
			if before.IFF1 {
				env.Fire("ei-fork-exec-first")
			} else {
				env.Fire("refused")
			}
		}
		if req != nil {
			env.NonTrivial = true
			kind := "INT"
			if req.Type == z80.NMIType {
				kind = "NMI"
			}
			env.Class("%s/im%d/iff1=%t/iff2=%t/halted=%t/%s/depth%d", kind, before.IM, before.IFF1, before.IFF2, si.Before.PC == sc.Regs.PC && sc.Halted, c.Last, min(depth, 4))
		}
		if c.Last == model.KExec && (c.NRETI+c.NRETN) > (ms[0].NRETI+ms[0].NRETN) {
			env.Fire("retired")
			if depth > 0 {
				depth--
			}
		}
		ms = match
	}
	env.Ticks += m.Bus.Tick
	for k, v := range m.Raised {
		env.FireN("raised/"+k, uint64(v))
	}
	return nil
}

func (c06) Shrink(sci interface{}, _ *Violation) []interface{} {
	p := c06{}
	sc := sci.(*C06Sc)
	var out []interface{}
	for i := range sc.Events {
		n := Clone(p, sc).(*C06Sc)
		n.Events = append(n.Events[:i], n.Events[i+1:]...)
		out = append(out, n)
	}
	if sc.Steps > 1 {
		for _, s := range []int{1, sc.Steps / 2, sc.Steps - 1} {
			if s >= 1 && s < sc.Steps {
				n := Clone(p, sc).(*C06Sc)
				n.Steps = s
				out = append(out, n)
			}
		}
	}
	for i := range sc.Events {
		if sc.Events[i].Boundary > 0 {
			n := Clone(p, sc).(*C06Sc)
			n.Events[i].Boundary = 0
			out = append(out, n)
			n = Clone(p, sc).(*C06Sc)
			n.Events[i].Boundary--
			out = append(out, n)
		}
	}
	// drop whole segments, then NOP single bytes
	for i := range sc.Image {
		n := Clone(p, sc).(*C06Sc)
		n.Image = append(n.Image[:i], n.Image[i+1:]...)
		out = append(out, n)
	}
	for i, s := range sc.Image {
		b, _ := s.Bytes()
		for j := range b {
			if b[j] != 0 {
				n := Clone(p, sc).(*C06Sc)
				nb := append([]uint8(nil), b...)
				nb[j] = 0
				n.Image[i] = world.MkSeg(s.Addr, nb)
				out = append(out, n)
			}
		}
	}
	if sc.Regs.AF != 0 || sc.Regs.R != 0 {
		n := Clone(p, sc).(*C06Sc)
		n.Regs.AF, n.Regs.R = 0, 0
		out = append(out, n)
	}
	return out
}
