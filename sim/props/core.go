// Package props holds, per claimed property, the scenario generator, the
// executor that runs the scenario against the real library inside the
// simulated world, the oracle, and the shrink hints.
package props

import (
	"bytes"
	"encoding/json"
	"fmt"
	"runtime/debug"
	"sort"
	"strings"
	"testing"
	"time"

	"github.com/koron-go/z80/verifsim/world"
)

// Violation is an oracle failure.
type Violation struct {
	Oracle string `json:"oracle"`
	Detail string `json:"detail"`
	// Hint tells the shrinker where in a composite scenario the failure was
	// (e.g. which injection point of an enumerated family).
	Hint interface{} `json:"-"`
}

func (v *Violation) String() string { return v.Oracle + ": " + v.Detail }

func viol(oracle, format string, args ...interface{}) *Violation {
	return &Violation{Oracle: oracle, Detail: fmt.Sprintf(format, args...)}
}

// Env is what an executor gets besides the scenario. Executors only *add* to
// the statistics; nothing in Env influences the execution of a scenario.
type Env struct {
	T      *testing.T    // for synctest bubbles
	Race   bool          // binary was built with -race
	LogBuf *bytes.Buffer // captured output of package log (process global)

	Steps   uint64
	Ticks   uint64
	SimNS   uint64            // simulated (fake clock) nanoseconds covered
	Fired   map[string]uint64 // events/faults that actually fired, by kind
	Classes map[string]uint64 // schedule / landing-point classes reached
	Known   map[string]string // known-finding signature -> first example
	KnownN  map[string]uint64

	// set by the executor per scenario
	NonTrivial bool
	// Waive: the executor asks that a verdict which the harness itself may have provoked be dropped
	Waive bool
	// ExtraEvals: executions beyond the first that one scenario performed
	// (enumerated injection points); NTPoints: distinct non-trivial points.
	ExtraEvals uint64
	NTPoints   uint64
	Quiet      bool // statistics are not collected (shrinking / replay)
}

// Private returns an environment with statistics of its own (same log capture, same mode) for an
// execution on a goroutine that may never come back; Merge adds them once it has.
func (e *Env) Private() *Env {
	p := NewEnv()
	p.T, p.Race, p.LogBuf, p.Quiet = e.T, e.Race, e.LogBuf, e.Quiet
	return p
}

// Merge adds the statistics of a private environment.
func (e *Env) Merge(p *Env) {
	e.Steps += p.Steps
	e.Ticks += p.Ticks
	e.SimNS += p.SimNS
	for k, v := range p.Fired {
		e.Fired[k] += v
	}
	for k, v := range p.Classes {
		e.Classes[k] += v
	}
	for k, v := range p.Known {
		if _, ok := e.Known[k]; !ok {
			e.Known[k] = v
		}
	}
	for k, v := range p.KnownN {
		e.KnownN[k] += v
	}
	e.NonTrivial = e.NonTrivial || p.NonTrivial
	e.Waive = e.Waive || p.Waive
	e.ExtraEvals += p.ExtraEvals
	e.NTPoints += p.NTPoints
}

// NewEnv returns an empty environment.
func NewEnv() *Env {
	return &Env{Fired: map[string]uint64{}, Classes: map[string]uint64{}, Known: map[string]string{}, KnownN: map[string]uint64{}, LogBuf: &bytes.Buffer{}}
}

// Fire counts an event that fired.
func (e *Env) Fire(kind string) {
	if !e.Quiet {
		e.Fired[kind]++
	}
}

// FireN counts n firings.
func (e *Env) FireN(kind string, n uint64) {
	if !e.Quiet && n > 0 {
		e.Fired[kind] += n
	}
}

// Class counts a reached class.
func (e *Env) Class(format string, args ...interface{}) {
	if !e.Quiet {
		e.Classes[fmt.Sprintf(format, args...)]++
	}
}

// KnownFinding records an occurrence of a listed finding.
func (e *Env) KnownFinding(sig, example string) {
	if _, ok := e.Known[sig]; !ok {
		e.Known[sig] = example
	}
	e.KnownN[sig]++
}

// Prop is one property's machinery.
type Prop interface {
	ID() string
	// Gen draws scenario number n. All choices come from r.
	Gen(r *world.Rng, tier string, n int) interface{}
	// New returns an empty scenario to decode a replay file into.
	New() interface{}
	// Exec runs the scenario and evaluates the oracles.
	Exec(sc interface{}, env *Env) *Violation
	// Shrink proposes simpler scenarios (each a fresh value).
	Shrink(sc interface{}, v *Violation) []interface{}
}

var registry = map[string]Prop{}

// Register adds a property.
func Register(p Prop) { registry[p.ID()] = p }

// Get finds a property.
func Get(id string) Prop { return registry[id] }

// IDs lists registered properties.
func IDs() []string {
	var ids []string
	for k := range registry {
		ids = append(ids, k)
	}
	sort.Strings(ids)
	return ids
}

// Replay is the replay file.
type Replay struct {
	Property  string          `json:"property"`
	Seed      uint64          `json:"seed"`
	Shard     int             `json:"shard"`
	Run       int             `json:"run"`
	Oracle    string          `json:"oracle"`
	Observed  string          `json:"observed"`
	Scenario  json.RawMessage `json:"scenario"`
	Original  json.RawMessage `json:"original_scenario,omitempty"`
	ShrinkRan int             `json:"shrink_executions"`
	Race      bool            `json:"race_binary,omitempty"`
}

// Clone deep-copies a scenario through JSON.
func Clone(p Prop, sc interface{}) interface{} {
	b, err := json.Marshal(sc)
	if err != nil {
		panic(err)
	}
	n := p.New()
	if err := json.Unmarshal(b, n); err != nil {
		panic(err)
	}
	return n
}

// SafeExec runs Exec and converts a panic of the harness or the library into a
// violation of oracle "panic" (for most properties a panic of the library is
// itself wrong; for all of them it must not kill the worker).
func SafeExec(p Prop, sc interface{}, env *Env) (v *Violation) {
	defer func() {
		if r := recover(); r != nil {
			v = viol(panicOracle(debug.Stack()), "%v", r)
		}
	}()
	return p.Exec(sc, env)
}

// Minimise shrinks sc while the same oracle keeps failing. Bounded.
func Minimise(p Prop, sc interface{}, first *Violation, env *Env, maxExec int) (interface{}, *Violation, int) {
	q := *env
	q.Quiet = true
	q.Fired, q.Classes, q.Known, q.KnownN = map[string]uint64{}, map[string]uint64{}, map[string]string{}, map[string]uint64{}
	cur, curV := sc, first
	n := 0
	t0 := time.Now()
	if first.Oracle == "hang" || strings.Contains(first.Detail, "of real time") {
		maxExec = 0 // every still-hanging candidate would cost a full watchdog period
	}
	for progress := true; progress && n < maxExec; {
		progress = false
		for _, cand := range p.Shrink(cur, curV) {
			if n >= maxExec {
				break
			}
			n++
			v := SafeExec(p, cand, &q)
			if v != nil && v.Oracle == first.Oracle {
				cur, curV = cand, v
				progress = true
				break
			}
			if (v != nil && strings.Contains(v.Detail, "of real time")) || time.Since(t0) > 2*time.Minute {
				// a candidate ran into a real-time watchdog (it has left a goroutine spinning behind), or
				// minimising takes too long: report what there is. The file is smaller or equal, never wrong.
				return cur, curV, n
			}
		}
	}
	return cur, curV, n
}

// Fingerprint hashes a scenario's JSON.
func Fingerprint(sc interface{}) uint64 {
	b, _ := json.Marshal(sc)
	var h uint64 = 1469598103934665603
	for _, c := range b {
		h = (h ^ uint64(c)) * 1099511628211
	}
	return h
}

// panicOracle classifies a recovered panic by the function it happened in: a
// panic inside the library under test is the property's business ("panic"), a
// panic in the simulator's own code is harness trouble (exit 2, never a
// violation).
func panicOracle(stack []byte) string {
	lines := strings.Split(string(stack), "\n")
	// The frames that matter are those below the ORIGINAL panic: a deferred function of the harness that
	// recovers, finds the value is not its own sentinel and panics again puts a second "panic(" - and its
	// own frame - on top of them. So the verdict is taken below the last panic marker of the dump.
	verdict, seenPanic := "", false
	for _, l := range lines {
		if strings.HasPrefix(l, "\t") {
			continue // file:line
		}
		if strings.HasPrefix(l, "panic(") || strings.HasPrefix(l, "runtime.") {
			if strings.HasPrefix(l, "panic(") || strings.Contains(l, "runtime.goPanic") || strings.Contains(l, "runtime.panic") || strings.Contains(l, "runtime.sigpanic") {
				seenPanic = true
				verdict = ""
			}
			continue
		}
		if !seenPanic || verdict != "" {
			continue // frames of the deferred recover itself / already decided for this panic
		}
		if strings.HasPrefix(l, "github.com/koron-go/z80/verifsim/") {
			verdict = "harness"
		} else if strings.HasPrefix(l, "github.com/koron-go/z80") {
			verdict = "panic"
		}
		// any other package (std library called from either side): keep looking down the stack
	}
	if verdict == "" {
		verdict = "panic"
	}
	return verdict
}
