package props

import (
	"context"
	"encoding/hex"
	"fmt"
	"strings"
	"testing"
	"testing/synctest"

	"github.com/koron-go/z80"
	"github.com/koron-go/z80/verifsim/model"
	"github.com/koron-go/z80/verifsim/world"
)

// C09 — block instructions transfer, search and count exactly as a whole
// operation, one element per Step, and the result is invariant under events
// (interrupts, crash/restore) landing at any element boundary.

// C09Sc is a C09 scenario.
type C09Sc struct {
	Op      uint8       `json:"op"` // ED xx
	Regs    world.Regs  `json:"regs"`
	MemSeed uint64      `json:"mem_seed"` // 64 KiB image = f(seed) & MemMask
	MemMask uint8       `json:"mem_mask"`
	Patch   []world.Seg `json:"patch"` // applied on top (besides the instruction itself)
	IOSeed  uint64      `json:"io_seed"`
	// events at element boundaries (index = number of completed elements)
	Events    []C09Ev `json:"events,omitempty"`
	Enumerate string  `json:"enumerate,omitempty"` // kind to inject at every element boundary in turn ("" = use Events)
	Safe      bool    `json:"safe"`                // layout with handlers/stack kept out of the ranges
	// DumbLen > 0: the CPU runs directly on the library's DumbMemory of that length (no recording
	// device, so no per-Step history: whole-operation outcome only); 65536 = full size
	DumbLen int `json:"dumb_len,omitempty"`
}

// C09Ev is an event at an element boundary.
type C09Ev struct {
	At   int    `json:"at"`
	Kind string `json:"kind"` // NMI | IM1 | IM2 | CRASH | RUNCANCEL
	// RUNCANCEL: from this element boundary the host drives the CPU with Run
	// (breakpoint after the instruction) and cancels it N accesses later; the
	// rest of the operation is then resumed with Step.
	N int `json:"n,omitempty"`
}

type c09 struct{}

func init() { Register(c09{}) }

func (c09) ID() string       { return "C09" }
func (c09) New() interface{} { return &C09Sc{} }

var c09Ops = []uint8{0xa0, 0xa8, 0xb0, 0xb8, 0xa1, 0xa9, 0xb1, 0xb9, 0xa2, 0xaa, 0xb2, 0xba, 0xa3, 0xab, 0xb3, 0xbb}

const (
	c09Counter = 0x0280
	c09IM2Tgt  = 0x0200
	c09Table   = 0x0300
)

func c09Image(sc *C09Sc) *[65536]uint8 {
	var mem [65536]uint8
	r := world.NewRng(sc.MemSeed)
	for i := 0; i < 65536; i += 8 {
		x := r.U64()
		for j := 0; j < 8; j++ {
			mem[i+j] = uint8(x>>(8*j)) & sc.MemMask
		}
	}
	for _, s := range sc.Patch {
		b, _ := s.Bytes()
		a := s.Addr
		for _, x := range b {
			mem[a] = x
			a++
		}
	}
	mem[sc.Regs.PC] = 0xed
	mem[sc.Regs.PC+1] = sc.Op
	return &mem
}

func c09HandlerSegs() []world.Seg {
	h := func(ret ...uint8) []uint8 {
		b := []uint8{0xf5, 0xe5, 0x21, uint8(c09Counter & 0xff), uint8(c09Counter >> 8), 0x34, 0x3e, 0x5a, 0xc6, 0xc3, 0x21, 0x11, 0x22, 0xe1, 0xf1}
		return append(b, ret...)
	}
	return []world.Seg{
		world.MkSeg(0x0038, h(0xfb, 0xed, 0x4d)),
		world.MkSeg(0x0066, h(0xed, 0x45)),
		world.MkSeg(c09IM2Tgt, h(0xfb, 0xed, 0x4d)),
		world.MkSeg(c09Table+0x10, []uint8{uint8(c09IM2Tgt & 0xff), uint8(c09IM2Tgt >> 8)}),
	}
}

func (c09) Gen(r *world.Rng, tier string, n int) interface{} {
	sc := &C09Sc{Op: c09Ops[n%16], MemSeed: r.U64(), IOSeed: r.U64(), MemMask: 0xff}
	regs := world.RandRegs(r)
	kind := sc.Op & 3
	count := func() uint16 {
		switch r.Intn(10) {
		case 0:
			return 0
		case 1:
			return 1
		case 2:
			return 2
		case 3:
			return 255
		case 4:
			return 256
		case 5:
			return 65535
		case 6:
			return r.U16()
		default:
			return uint16(r.Range(1, 40))
		}
	}
	withEvents := n/16%3 != 0 // two thirds of the scenarios carry events
	sc.Safe = withEvents
	if withEvents {
		regs.PC = uint16(r.Range(0x0100, 0x01f0))
		regs.SP = 0xfff0
		regs.I = uint8(c09Table >> 8)
		regs.IFF1, regs.IFF2 = true, true
		regs.HL = uint16(r.Range(0x1000, 0xdfff))
		regs.DE = uint16(r.Range(0x1000, 0xdfff))
		if r.Chance(1, 3) {
			regs.DE = regs.HL + uint16(r.Range(0, 6)) - 3
		}
		c := count()
		if c == 0 || c > 0x0c00 {
			c = uint16(r.Range(1, 0x300))
		}
		if kind >= 2 {
			regs.BC = c<<8 | uint16(r.Byte())
		} else {
			regs.BC = c
		}
	} else {
		regs.PC = r.CornerU16()
		regs.HL = r.CornerU16()
		regs.DE = r.CornerU16()
		switch r.Intn(6) {
		case 0: // overlap distance -3..+3
			regs.DE = regs.HL + uint16(r.Range(0, 6)) - 3
		case 1: // range covers the instruction's own bytes
			regs.DE = regs.PC - uint16(r.Intn(6))
			if sc.Op&8 != 0 {
				regs.DE = regs.PC + uint16(r.Intn(6))
			}
		case 2:
			regs.HL = regs.PC - uint16(r.Intn(4))
		}
		c := count()
		if kind >= 2 {
			regs.BC = c<<8 | uint16(r.Byte())
		} else {
			regs.BC = c
		}
	}
	if kind == 1 { // searches: present / absent / last / dense
		switch r.Intn(4) {
		case 0:
			sc.MemMask = 0x7f
			regs.AF = 0x8000 | regs.AF&0xff // absent
		case 1:
			sc.MemMask = 0x03 // dense matches
			regs.AF = uint16(r.Intn(4))<<8 | regs.AF&0xff
		case 2: // present exactly at the last element
			sc.MemMask = 0x7f
			regs.AF = 0x9900 | regs.AF&0xff
			if c := regs.BC; c != 0 && c < 0x4000 {
				last := regs.HL + (c - 1)
				if sc.Op&8 != 0 {
					last = regs.HL - (c - 1)
				}
				sc.Patch = append(sc.Patch, world.MkSeg(last, []uint8{0x99}))
			}
		}
	}
	sc.Regs = regs
	if !withEvents && r.Chance(1, 4) {
		// directly on the library's DumbMemory, often shorter than the address range
		sc.DumbLen = r.Pick(65536, 65536, 65535, 0x8000, 0x4000, r.Range(0x200, 0xffff))
		for int(sc.Regs.PC)+1 >= sc.DumbLen {
			sc.Regs.PC = uint16(r.Intn(sc.DumbLen - 1))
		}
		// pointers near the end of the memory: source or destination runs off it
		if r.Chance(1, 2) && sc.DumbLen < 65536 {
			edge := uint16(sc.DumbLen)
			switch r.Intn(3) {
			case 0:
				sc.Regs.HL = edge - uint16(r.Intn(8))
			case 1:
				sc.Regs.DE = edge - uint16(r.Intn(8))
			default:
				sc.Regs.HL = edge + uint16(r.Intn(64))
				sc.Regs.DE = uint16(r.Intn(sc.DumbLen))
			}
		}
		if sc.Regs.BC == 0 || sc.Regs.BC > 0x4000 {
			sc.Regs.BC = uint16(r.Range(1, 600))
			if sc.Op&3 >= 2 {
				sc.Regs.BC = uint16(r.Range(1, 255))<<8 | uint16(r.Byte())
			}
		}
	}
	if withEvents {
		elems := int(regs.BC)
		if kind >= 2 {
			elems = int(regs.BC >> 8)
		}
		kinds := []string{"NMI", "IM1", "IM2", "CRASH"}
		enumMax := 32
		if strings.HasPrefix(tier, "thorough") {
			enumMax = 64
		}
		if elems <= enumMax && r.Chance(1, 2) && sc.Op&0x10 != 0 {
			sc.Enumerate = kinds[r.Intn(4)]
		} else if r.Chance(1, 8) && sc.Op&0x10 != 0 {
			// cancellation of Run in the middle of the operation, resumed afterwards
			sc.Events = append(sc.Events, C09Ev{At: r.Intn(elems + 1), Kind: "RUNCANCEL", N: r.Range(1, 4*elems+4)})
		} else {
			for i := r.Range(1, 3); i > 0; i-- {
				sc.Events = append(sc.Events, C09Ev{At: r.Intn(elems + 1), Kind: kinds[r.Intn(4)]})
			}
		}
	}
	return sc
}

type c09Elem struct{ r, w int32 }

func (c09) Exec(sci interface{}, env *Env) (res *Violation) {
	sc := sci.(*C09Sc)
	for _, e := range sc.Events {
		if e.Kind == "RUNCANCEL" && sc.Enumerate == "" {
			// needs the synctest bubble: "the watcher has published" must be a known instant
			if env.T == nil {
				return viol("harness", "no *testing.T for a synctest bubble")
			}
			done := false
			synctest.Test(env.T, func(t *testing.T) {
				defer func() {
					if r := recover(); r != nil {
						res = viol("panic", "%v", r)
					}
					done = true
				}()
				res = c09One(sc, sc.Events, env)
			})
			if !done && res == nil {
				return viol("harness", "bubble did not finish")
			}
			return res
		}
	}
	if sc.Enumerate == "" {
		return c09One(sc, sc.Events, env)
	}
	// every element boundary in turn
	elems := int(sc.Regs.BC)
	if sc.Op&3 >= 2 {
		elems = int(sc.Regs.BC >> 8)
	}
	for k := 0; k < elems; k++ {
		if k > 0 {
			env.ExtraEvals++
		}
		if v := c09One(sc, []C09Ev{{At: k, Kind: sc.Enumerate}}, env); v != nil {
			v.Hint = []C09Ev{{At: k, Kind: sc.Enumerate}}
			return v
		}
	}
	return nil
}

// c09Dumb: the block instruction runs directly on the library's DumbMemory.
func c09Dumb(sc *C09Sc, env *Env) *Violation {
	img := c09Image(sc)
	dm := make(z80.DumbMemory, sc.DumbLen)
	copy(dm, img[:])
	specMem := *img
	for i := sc.DumbLen; i < 65536; i++ {
		specMem[i] = 0
	}
	regs := sc.Regs
	pc := regs.PC
	bus := world.NewBus() // ports only
	bus.IOSeed, bus.KeepPorts = sc.IOSeed, true
	var specPorts []world.Acc
	var nIn uint64
	ownCode := false
	out := model.BlockSpec(model.BlockIn{
		Op: sc.Op, PC: pc, A: uint8(regs.AF >> 8), F: uint8(regs.AF), BC: regs.BC, DE: regs.DE, HL: regs.HL, Mem: &specMem, Len: sc.DumbLen,
		PortIn: func(p uint8) uint8 {
			v := world.InByte(sc.IOSeed, nIn, p)
			nIn++
			specPorts = append(specPorts, world.Acc{Kind: world.PI, Addr: uint16(p), Val: v})
			return v
		},
		PortOut: func(p uint8, v uint8) {
			specPorts = append(specPorts, world.Acc{Kind: world.PO, Addr: uint16(p), Val: v})
		},
		OnElem: func(i int, rd, wr int32) {
			if wr == int32(pc) || wr == int32(pc+1) {
				ownCode = true
			}
		},
	})
	cpu := &z80.CPU{States: regs.States(), Memory: dm, IO: bus.IO()}
	// one in four: no I/O device attached. The transfers go nowhere (what an input form stores is not
	// specified), the operation itself - counters, pointers, Z, number of Steps - is the same
	nilIO := sc.IOSeed>>1&3 == 3 && !(sc.Op&3 == 2 && ownCode) // (unspecified input bytes landing on the instruction itself: not this variant)
	if sc.IOSeed&1 == 1 {
		// the CPU object has a past: it performed an element of the same operation on ANOTHER memory and
		// port device of the host's before the host attached these ones and loaded the registers
		decoy := make(z80.DumbMemory, sc.DumbLen)
		copy(decoy, img[:])
		db := world.NewBus()
		db.IOSeed = ^sc.IOSeed
		cpu.Memory, cpu.IO = decoy, db.IO()
		cpu.Step()
		if sc.IOSeed>>3&1 == 1 {
			// ... and it then ran a program to its HALT (the halted indication is still set: only Run clears it)
			hm := make(z80.DumbMemory, 4)
			hm[1] = 0x76
			cpu.Memory = hm
			cpu.PC = 0
			if err := cpu.Run(context.Background()); err != nil || !cpu.HALT {
				return viol("harness", "NOP;HALT did not halt: %v", err)
			}
			env.Fire("cpu-object-halted-before")
		}
		if sc.IOSeed>>4&1 == 1 {
			// ... and what the host uses from here on is a by-value copy of that CPU
			c2 := *cpu
			cpu = &c2
			env.Fire("cpu-object-is-a-copy-of-a-used-one")
		}
		cpu.Memory, cpu.IO, cpu.States = dm, bus.IO(), regs.States()
		env.Fire("cpu-object-used-before-on-another-memory")
	}
	if nilIO {
		cpu.IO = nil
		env.Fire("no-io-device-attached")
	}
	name := fmt.Sprintf("ED %02X at %04x BC=%04x DE=%04x HL=%04x A=%02x on DumbMemory(len %d)", sc.Op, pc, regs.BC, regs.DE, regs.HL, regs.AF>>8, sc.DumbLen)
	steps := 0
	for steps < out.Elems {
		cpu.Step()
		steps++
		if cpu.PC != pc {
			break
		}
	}
	env.Steps += uint64(steps)
	wantPC := pc
	if out.Done {
		wantPC = pc + 2
	}
	if steps != out.Elems || cpu.PC != wantPC {
		return viol("steps", "%s: after %d Steps PC=%04x; the operation has %d elements and must end at %04x (done=%t selfmod=%t)", name, steps, cpu.PC, out.Elems, wantPC, out.Done, out.SelfMod)
	}
	exp := regs.States()
	exp.BC.SetU16(out.BC)
	exp.DE.SetU16(out.DE)
	exp.HL.SetU16(out.HL)
	exp.PC = wantPC
	got := cpu.States
	gf := got.AF.Lo
	exp.AF.Lo, got.AF.Lo = 0, 0
	if d := world.DiffStates(exp, got, true); d != "" {
		return viol("final-registers", "%s (spec!=cpu):%s", name, d)
	}
	if gf&out.FMask != out.FVal {
		return viol("final-flags", "%s: documented flags (mask %02x) = %02x, specification %02x", name, out.FMask, gf&out.FMask, out.FVal)
	}
	for a := 0; a < sc.DumbLen; a++ {
		if dm[a] != specMem[a] && !(nilIO && sc.Op&3 == 2) {
			return viol("final-memory", "%s: memory[%04x]=%02x, specification %02x", name, a, dm[a], specMem[a])
		}
	}
	if nilIO {
		specPorts = nil
	}
	if len(bus.PortLog) != len(specPorts) {
		return viol("port-log", "%s: %d port accesses, specification %d", name, len(bus.PortLog), len(specPorts))
	}
	for i := range specPorts {
		if bus.PortLog[i] != specPorts[i] {
			return viol("port-log", "%s: port access #%d is %s, specification %s", name, i, bus.PortLog[i], specPorts[i])
		}
	}
	env.NonTrivial = true
	env.NTPoints++
	env.Fire("on-library-DumbMemory")
	env.Class("%02X/dumb/short=%t", sc.Op, sc.DumbLen < 65536)
	return nil
}

func c09One(sc *C09Sc, events []C09Ev, env *Env) *Violation {
	if sc.DumbLen > 0 {
		return c09Dumb(sc, env)
	}
	img := c09Image(sc)
	var segs []world.Seg
	if sc.Safe {
		segs = c09HandlerSegs()
	}
	m, _ := world.NewMachine(sc.Regs, nil, sc.IOSeed, nil)
	m.Bus.Mem = *img
	m.Bus.Load(segs)
	m.Bus.KeepPorts = true
	regs := sc.Regs
	pc := regs.PC

	// the specification, on its own copy of memory and its own port stream
	specMem := m.Bus.Mem
	var specPorts []world.Acc
	var nIn uint64
	var elemsAcc []c09Elem
	var elemF []uint8
	out := model.BlockSpec(model.BlockIn{
		Op: sc.Op, PC: pc, A: uint8(regs.AF >> 8), F: uint8(regs.AF), BC: regs.BC, DE: regs.DE, HL: regs.HL, Mem: &specMem,
		PortIn: func(p uint8) uint8 {
			v := world.InByte(sc.IOSeed, nIn, p)
			nIn++
			specPorts = append(specPorts, world.Acc{Kind: world.PI, Addr: uint16(p), Val: v})
			return v
		},
		PortOut: func(p uint8, v uint8) {
			specPorts = append(specPorts, world.Acc{Kind: world.PO, Addr: uint16(p), Val: v})
		},
		OnElem:    func(i int, r, w int32) { elemsAcc = append(elemsAcc, c09Elem{r, w}) },
		AfterElem: func(i int, f uint8) { elemF = append(elemF, f) },
	})

	name := fmt.Sprintf("ED %02X at %04x BC=%04x DE=%04x HL=%04x A=%02x", sc.Op, pc, regs.BC, regs.DE, regs.HL, regs.AF>>8)
	elems := 0
	accepted := 0
	evDone := make([]bool, len(events))
	budget := out.Elems*2 + 64*(len(events)+1) + 8
	for steps := 0; ; steps++ {
		if steps > budget {
			return viol("steps", "%s: still running after %d Steps; the operation has %d elements", name, steps, out.Elems)
		}
		if m.CPU.PC == pc && m.CPU.Interrupt == nil {
			for i, e := range events {
				if evDone[i] || e.At != elems {
					continue
				}
				evDone[i] = true
				switch e.Kind {
				case "CRASH":
					m = m.Restore()
					env.Fire("crash-restore@element-boundary")
				case "RUNCANCEL":
					// host switches to Run with a breakpoint behind the instruction and cancels it N accesses later
					ctx, cancel := context.WithCancel(context.Background())
					start := m.Bus.Tick
					n := uint64(e.N)
					m.Hook = func(mm *world.Machine, _ world.Acc) {
						if mm.Bus.Tick == start+n {
							cancel()
							synctest.Wait()
						}
						if mm.Bus.Tick > start+n+600000 {
							panic("C09: Run ignores cancellation")
						}
					}
					m.CPU.BreakPoints = map[uint16]struct{}{pc + 2: {}}
					err := m.CPU.Run(ctx)
					cancel()
					m.Hook, m.CPU.BreakPoints = nil, nil
					per := uint64(4)
					if sc.Op&3 == 1 {
						per = 3
					}
					did := m.Bus.Tick - start
					if did%per != 0 {
						return viol("cancel-mid-element", "%s: Run cancelled %d accesses into the operation returned after %d accesses, not a whole number of elements (%d accesses each); err=%v", name, e.N, did, per, err)
					}
					elems += int(did / per)
					env.Fire("run-cancelled-mid-operation-then-resumed")
					if elems >= out.Elems {
						goto finished
					}
					if m.CPU.PC != pc {
						return viol("pc-stays-on-instruction", "%s: after a cancelled Run (%d elements done of %d) PC=%04x", name, elems, out.Elems, m.CPU.PC)
					}
				case "NMI":
					m.RaiseNow(world.Event{Kind: world.EvNMI}, "elem")
				case "IM1":
					m.CPU.IM = 1
					m.RaiseNow(world.Event{Kind: world.EvINT}, "elem")
				case "IM2":
					m.CPU.IM = 2
					m.RaiseNow(world.Event{Kind: world.EvINT, Data: "10"}, "elem")
				}
				if m.CPU.Interrupt != nil {
					break // one request at a time
				}
			}
		}
		si := m.StepNoBoundary()
		if si.Accepted {
			accepted++
			pos := "first"
			if elems > 0 {
				pos = "between-repetitions"
			}
			env.Fire("interrupt@" + pos)
			continue
		}
		if si.Before.PC != pc || m.CPU.SP != regs.SP {
			continue // inside a handler
		}
		// one element Step: exactly the two opcode bytes and this element's accesses
		want := []world.Acc{{Kind: world.MR, Addr: pc, Val: 0xed}, {Kind: world.MR, Addr: pc + 1, Val: sc.Op}}
		if elems < len(elemsAcc) {
			e := elemsAcc[elems]
			switch sc.Op & 3 {
			case 0:
				want = append(want, world.Acc{Kind: world.MR, Addr: uint16(e.r)}, world.Acc{Kind: world.MW, Addr: uint16(e.w)})
			case 1:
				want = append(want, world.Acc{Kind: world.MR, Addr: uint16(e.r)})
			case 2:
				want = append(want, world.Acc{Kind: world.PI, Addr: regs.BC & 0xff}, world.Acc{Kind: world.MW, Addr: uint16(e.w)})
			case 3:
				want = append(want, world.Acc{Kind: world.MR, Addr: uint16(e.r)}, world.Acc{Kind: world.PO, Addr: regs.BC & 0xff})
			}
			got := m.Bus.Log
			ok := len(got) == len(want)
			for i := 0; ok && i < len(want); i++ {
				ok = got[i].Kind == want[i].Kind && got[i].Addr == want[i].Addr
			}
			if !ok {
				return viol("one-element-per-step", "%s: Step for element %d made accesses %s; one element is %s (values aside)", name, elems, world.FmtLog(got), world.FmtLog(want))
			}
		}
		// ... and each element is the non-repeating instruction: its documented flags hold after every Step,
		// not only at the end
		if elems < len(elemF) {
			if g := m.CPU.AF.Lo; g&out.FMask != elemF[elems]&out.FMask {
				return viol("element-flags", "%s: after the Step for element %d the documented flags (mask %02x) are %02x, one element leaves %02x", name, elems, out.FMask, g&out.FMask, elemF[elems]&out.FMask)
			}
		}
		elems++
		if elems >= out.Elems {
			break
		}
		if m.CPU.PC != pc {
			return viol("pc-stays-on-instruction", "%s: PC=%04x after element %d of %d; PC must stay on the instruction until the operation is finished", name, m.CPU.PC, elems, out.Elems)
		}
	}
finished:
	env.Steps += uint64(m.Steps)
	env.Ticks += m.Bus.Tick
	cpu := m.CPU
	wantPC := pc
	if out.Done {
		wantPC = pc + 2
	}
	if cpu.PC != wantPC {
		return viol("final-pc", "%s: after %d elements PC=%04x, want %04x (done=%t selfmod=%t)", name, elems, cpu.PC, wantPC, out.Done, out.SelfMod)
	}
	exp := regs.States()
	exp.BC.SetU16(out.BC)
	exp.DE.SetU16(out.DE)
	exp.HL.SetU16(out.HL)
	exp.PC = wantPC
	got := cpu.States
	gf := got.AF.Lo
	exp.AF.Lo, got.AF.Lo = 0, 0
	exp.IM = got.IM // switched by the harness for IM1/IM2 events
	if d := world.DiffStates(exp, got, true); d != "" {
		return viol("final-registers", "%s: after %d elements (spec!=cpu):%s", name, elems, d)
	}
	if gf&out.FMask != out.FVal {
		return viol("final-flags", "%s: documented flags (mask %02x) = %02x, specification %02x", name, out.FMask, gf&out.FMask, out.FVal)
	}
	for a := 0; a < 65536; a++ {
		if m.Bus.Mem[a] != specMem[a] {
			if sc.Safe && (a == c09Counter || regs.SP-uint16(a)-1 < 32) {
				continue
			}
			return viol("final-memory", "%s: memory[%04x]=%02x, specification %02x", name, a, m.Bus.Mem[a], specMem[a])
		}
	}
	if sc.Safe && int(m.Bus.Mem[c09Counter]-specMem[c09Counter]) != accepted&0xff {
		return viol("handler-count", "%s: %d acceptances, handler counter advanced by %d", name, accepted, m.Bus.Mem[c09Counter]-specMem[c09Counter])
	}
	if len(m.Bus.PortLog) != len(specPorts) {
		return viol("port-log", "%s: %d port accesses, specification %d", name, len(m.Bus.PortLog), len(specPorts))
	}
	for i := range specPorts {
		if m.Bus.PortLog[i] != specPorts[i] {
			return viol("port-log", "%s: port access #%d is %s, specification %s", name, i, m.Bus.PortLog[i], specPorts[i])
		}
	}
	env.NonTrivial = true
	cls := "base"
	if len(events) > 0 {
		cls = "events"
	}
	env.Class("%02X/%s/elems=%s/selfmod=%t", sc.Op, cls, bucket(out.Elems), out.SelfMod)
	env.NTPoints++
	return nil
}

func bucket(n int) string {
	switch {
	case n <= 1:
		return "1"
	case n <= 8:
		return "2-8"
	case n <= 256:
		return "9-256"
	case n < 65536:
		return "257-65535"
	default:
		return "65536"
	}
}

func (c09) Shrink(sci interface{}, v *Violation) []interface{} {
	p := c09{}
	sc := sci.(*C09Sc)
	var out []interface{}
	if sc.Enumerate != "" {
		if evs, ok := v.Hint.([]C09Ev); ok {
			n := Clone(p, sc).(*C09Sc)
			n.Enumerate, n.Events = "", evs
			out = append(out, n)
		}
		return out
	}
	for i := range sc.Events {
		n := Clone(p, sc).(*C09Sc)
		n.Events = append(n.Events[:i], n.Events[i+1:]...)
		out = append(out, n)
	}
	// smaller counts
	kind := sc.Op & 3
	cnt := sc.Regs.BC
	if kind >= 2 {
		cnt >>= 8
	}
	for _, c := range []uint16{1, 2, 3, cnt / 2, cnt - 1} {
		if c == 0 || c >= cnt && cnt != 0 {
			continue
		}
		n := Clone(p, sc).(*C09Sc)
		if kind >= 2 {
			n.Regs.BC = c<<8 | sc.Regs.BC&0xff
		} else {
			n.Regs.BC = c
		}
		out = append(out, n)
	}
	for i := range sc.Events {
		if sc.Events[i].At > 0 {
			n := Clone(p, sc).(*C09Sc)
			n.Events[i].At--
			out = append(out, n)
		}
	}
	z := sc.Regs
	z.AF2, z.BC2, z.DE2, z.HL2, z.IX, z.IY, z.R = 0, 0, 0, 0, 0, 0, 0
	if z != sc.Regs {
		n := Clone(p, sc).(*C09Sc)
		n.Regs = z
		out = append(out, n)
	}
	if len(sc.Patch) > 0 {
		n := Clone(p, sc).(*C09Sc)
		n.Patch = nil
		out = append(out, n)
	}
	_ = hex.EncodeToString
	return out
}
