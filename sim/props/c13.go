package props

import (
	"context"
	"errors"
	"fmt"
	"runtime"
	"strings"
	"sync"
	"sync/atomic"
	"testing"
	"testing/synctest"
	"time"

	"github.com/koron-go/z80"
	"github.com/koron-go/z80/verifsim/gen"
	"github.com/koron-go/z80/verifsim/world"
)

// C13 — Run honours cancellation promptly, at an instruction boundary, and
// leaves no goroutine behind. Every scenario runs inside a testing/synctest
// bubble: Run's goroutine enters simulator code at every bus access, where the
// simulator fires the cancellation and then calls synctest.Wait(), which
// returns only when every other goroutine of the bubble (Run's watcher,
// context's propagation goroutines, a separate canceller) is durably blocked
// or gone. "The watcher has published" is therefore a known instant. Slow
// watchers are produced through the caller-supplied context (SimCtx), whose
// Err() can be held for a chosen number of ticks.

// C13Sc is a C13 scenario: one bubble, several Run calls.
type C13Sc struct {
	Kind     string        `json:"kind"` // cancel | leak | free
	Prog     string        `json:"prog"` // jr | djnz | ldir | io | structured
	Struct   *gen.Prog     `json:"struct,omitempty"`
	Handlers []gen.CodeSeg `json:"handlers,omitempty"`
	Table    []world.Seg   `json:"table,omitempty"`
	Events   []world.Event `json:"events,omitempty"`
	IOSeed   uint64        `json:"io_seed"`
	BP       []uint16      `json:"bp,omitempty"`

	Parent    string   `json:"parent"`               // background | withcancel | withtimeout | nested | simctx
	By        string   `json:"by"`                   // self | other | deadline | pre | never
	Ticks     []uint64 `json:"ticks"`                // cancel instants, one Run (fresh CPU) each
	HoldCall  int      `json:"hold_call,omitempty"`  // simctx: hold the n-th Err() after cancellation
	HoldTicks int      `json:"hold_ticks,omitempty"` // ... for this many further accesses
	LatencyNS int64    `json:"latency_ns,omitempty"` // deadline: simulated time per access
	Repeats   int      `json:"repeats,omitempty"`    // leak: consecutive Run calls
	FreeSpin  int      `json:"free_spin,omitempty"`  // free: iterations the canceller spins first
	R0        uint8    `json:"r0,omitempty"`         // initial refresh register of the fixed loop programs
	Resume    bool     `json:"resume,omitempty"`     // after a cancelled Run call Run again (never cancelled) and compare the end
}

type c13 struct{}

func init() { Register(c13{}) }

func (c13) ID() string       { return "C13" }
func (c13) New() interface{} { return &C13Sc{} }

const (
	c13B        = 65536 // Steps allowed to start after publication (generous on purpose)
	c13MaxTicks = 4_000_000
)

func (c13) Gen(r *world.Rng, tier string, n int) interface{} {
	sc := &C13Sc{IOSeed: r.U64()}
	sc.Prog = []string{"jr", "djnz", "ldir", "io", "xy", "edxy", "inc", "sled", "ring", "fwdio", "pfx", "selfmod", "structured", "structured", "structured", "structured", "structured"}[r.Intn(17)]
	sc.R0 = r.Byte()
	if sc.Prog == "jr" && sc.R0%4 == 1 {
		// a loop that rewrites the refresh counter every time round (no extra draw: the other scenarios of
		// the stream stay what they were): whatever Run derives from R must not decide whether it looks
		// at the context
		sc.Prog = "ldr"
	}
	if sc.Prog == "structured" {
		mode := r.Intn(3)
		p := gen.Structured(r, gen.Opts{IO: true, Blocks: r.Range(3, 16), MaxSubs: 3, EI: true, StartEI: r.Chance(3, 4)})
		p.Regs.IM = mode
		p.Regs.I = uint8(c07Table >> 8)
		sc.Struct = p
		hs := genHandlers(r, mode)
		sc.Handlers, sc.Table = hs.Handlers, hs.Table
		for i := r.Intn(3); i > 0; i-- {
			ev := hs.Kinds[r.Intn(len(hs.Kinds))]
			ev.AtTick = uint64(r.Range(1, 600))
			sc.Events = append(sc.Events, ev)
		}
		if r.Chance(1, 3) {
			a := instrAddrs(p)
			sc.BP = append(sc.BP, a[r.Intn(len(a))])
		}
	} else if r.Chance(1, 3) && sc.Prog != "sled" && sc.Prog != "ring" && sc.Prog != "fwdio" && sc.Prog != "pfx" {
		sc.BP = []uint16{0x4000, 0x0101} // never hit (0x0101 is inside the first instruction)
	}
	if sc.Prog != "structured" && r.Chance(1, 3) {
		// the loop spins with interrupts disabled while a maskable request is waiting (refused for ever):
		// cancellation must get through all the same
		sc.Events = []world.Event{{Kind: world.EvINT, Data: []string{"", "ff", "10"}[r.Intn(3)], AtTick: uint64(r.Range(1, 3))}}
	}
	if strings.HasSuffix(tier, "-race") && n%2 == 0 {
		sc.Kind = "free"
		sc.Parent = []string{"withcancel", "withtimeout", "nested"}[r.Intn(3)]
		sc.By = "other"
		sc.Repeats = r.Range(3, 30)
		sc.FreeSpin = r.Pick(0, 1, 10, 100, 1000, 10000)
		if sc.Prog == "structured" || sc.Prog == "pfx" {
			sc.Prog = "jr"
			sc.Struct, sc.Handlers, sc.Table, sc.BP = nil, nil, nil, nil
			sc.Events = nil
		}
		return sc
	}
	if n%12 == 4 || (strings.HasSuffix(tier, "-race") && n%4 == 1) {
		// one CPU object reused for many Runs, each context cancelled by the host right after its Run
		// returned (the usual `defer cancel()`); schedule of the old watchers is NOT owned (labelled)
		sc.Kind = "reuse"
		sc.Repeats = r.Range(50, 300)
		sc.Parent = []string{"withcancel", "withtimeout", "nested"}[r.Intn(3)]
		sc.By = "late"
		sc.Prog = "jr"
		sc.Struct, sc.Handlers, sc.Table, sc.Events, sc.BP = nil, nil, nil, nil, nil
		return sc
	}
	if n%6 == 5 {
		sc.Kind = "leak"
		sc.Repeats = r.Range(200, 1200)
		if strings.HasPrefix(tier, "thorough") {
			sc.Repeats = r.Range(1000, 10000)
		}
		sc.Parent = []string{"background", "withcancel", "withtimeout", "nested", "simctx"}[r.Intn(5)]
		sc.By = []string{"never", "self", "other", "pre"}[r.Intn(4)]
		return sc
	}
	sc.Kind = "cancel"
	sc.Parent = []string{"background", "withcancel", "withtimeout", "nested", "simctx", "simctx", "cancelcause", "timeoutcause"}[r.Intn(8)]
	sc.By = []string{"self", "self", "other", "deadline", "pre", "never"}[r.Intn(6)]
	if sc.Parent == "simctx" {
		if sc.By == "deadline" {
			sc.By = "self"
		}
		sc.HoldCall = r.Intn(4) // 0 = no hold
		sc.HoldTicks = r.Range(1, 60)
	}
	if sc.By == "never" && sc.Prog != "structured" {
		sc.By = "self"
	}
	if sc.By == "deadline" {
		sc.LatencyNS = int64(r.Pick(1000, 1000, 250, 7777))
		sc.Parent = []string{"withtimeout", "withtimeout", "timeoutcause"}[r.Intn(3)]
	}
	// cancellation instants: a window of consecutive ticks (so that every access
	// phase inside an instruction is hit) plus a few seeded ones
	nt := r.Range(4, 12)
	base := uint64(r.Range(1, 40))
	for i := 0; i < nt; i++ {
		if i < nt/2 {
			sc.Ticks = append(sc.Ticks, base+uint64(i))
		} else {
			sc.Ticks = append(sc.Ticks, uint64(r.Range(1, 3000)))
		}
	}
	if sc.Prog != "structured" && sc.Prog != "pfx" && r.Chance(1, 30) {
		// a Run that has been going for a long time (hundreds of thousands of Steps) when the cancellation
		// comes: the delay is bounded, not proportional to how long the Run has lasted
		sc.Ticks = []uint64{uint64(r.Range(300000, 1200000))}
	}
	if sc.Prog == "structured" && r.Chance(1, 2) {
		// cancellation landing exactly around the Step that halts / reaches the breakpoint
		m := c13Machine(sc)
		stop := uint64(0)
		for i := 0; i < 4000; i++ {
			si := m.StepNoBoundary()
			_, hit := m.CPU.BreakPoints[m.CPU.PC]
			if si.Halted || (m.CPU.BreakPoints != nil && hit) {
				stop = m.Bus.Tick
				break
			}
		}
		if stop > 4 {
			sc.Ticks = append(sc.Ticks, stop-4, stop-3, stop-2, stop-1, stop)
		}
		sc.Resume = true
	}
	return sc
}

// ---------------------------------------------------------------------------

// SimCtx is the caller-supplied context whose Done/Err are simulator-owned
// yield points.
type SimCtx struct {
	done     chan struct{}
	mu       sync.Mutex
	err      error
	calls    int
	holdCall int
	release  chan struct{}
	Held     bool // a call is (or was) being held
}

func newSimCtx(holdCall int) *SimCtx {
	return &SimCtx{done: make(chan struct{}), holdCall: holdCall, release: make(chan struct{})}
}

// Deadline implements context.Context.
func (c *SimCtx) Deadline() (time.Time, bool) { return time.Time{}, false }

// Done implements context.Context.
func (c *SimCtx) Done() <-chan struct{} { return c.done }

// Value implements context.Context.
func (c *SimCtx) Value(interface{}) interface{} { return nil }

// Err implements context.Context; the holdCall-th call after cancellation
// blocks (no lock held) until released or until an hour of fake time passed.
func (c *SimCtx) Err() error {
	c.mu.Lock()
	e := c.err
	n := 0
	if e != nil {
		c.calls++
		n = c.calls
	}
	hold := e != nil && n == c.holdCall
	if hold {
		c.Held = true
	}
	c.mu.Unlock()
	if hold {
		select {
		case <-c.release:
		case <-time.After(time.Hour):
		}
	}
	return e
}

func (c *SimCtx) isHeld() bool {
	c.mu.Lock()
	defer c.mu.Unlock()
	return c.Held
}

func (c *SimCtx) cancel() {
	c.mu.Lock()
	if c.err == nil {
		c.err = context.Canceled
		close(c.done)
	}
	c.mu.Unlock()
}

func (c *SimCtx) releaseAll() {
	select {
	case <-c.release:
	default:
		close(c.release)
	}
}

// ---------------------------------------------------------------------------

func c13Segs(sc *C13Sc) (world.Regs, []world.Seg) {
	regs := world.Regs{PC: 0x0100, SP: 0xf000, R: sc.R0, I: sc.R0 ^ 0x5a}
	var segs []world.Seg
	switch sc.Prog {
	case "jr":
		segs = []world.Seg{world.MkSeg(0x0100, []uint8{0x18, 0xfe})}
	case "ldr":
		// LD A,n ; LD R,A ; JP 0100 - R only ever takes the values n, n+1, n+2 (7 bits) at Step boundaries
		segs = []world.Seg{world.MkSeg(0x0100, []uint8{0x3e, sc.R0, 0xed, 0x4f, 0xc3, 0x00, 0x01})}
	case "djnz":
		// outer: LD B,3 ; inner: DJNZ inner ; INC HL ; JP outer
		segs = []world.Seg{world.MkSeg(0x0100, []uint8{0x06, 0x03, 0x10, 0xfe, 0x23, 0xc3, 0x00, 0x01})}
	case "ldir":
		// LD HL,8000 ; LD DE,8000 ; LD BC,0 ; LDIR ; JP 0100 - 65536 repetitions copying memory
		// onto itself, so the program never modifies its own code however long it runs
		segs = []world.Seg{world.MkSeg(0x0100, []uint8{0x21, 0x00, 0x80, 0x11, 0x00, 0x80, 0x01, 0x00, 0x00, 0xed, 0xb0, 0xc3, 0x00, 0x01})}
	case "xy":
		// JP (IX) onto itself: every instruction is prefixed (R advances by 2 per Step)
		regs.IX = 0x0100
		segs = []world.Seg{world.MkSeg(0x0100, []uint8{0xdd, 0xe9})}
	case "edxy":
		// LDIR (BC=0, onto itself) ; JP (IX) back to the LDIR: all prefixed, block-instruction dominated
		regs.IX, regs.HL, regs.DE = 0x0100, 0x8000, 0x8000
		segs = []world.Seg{world.MkSeg(0x0100, []uint8{0xed, 0xb0, 0xdd, 0xe9})}
	case "sled":
		// all-zero memory: a NOP sled around the whole 64 KiB ring, every Step moves forward
		regs.PC = uint16(sc.R0) << 8
		segs = nil
	case "pfx":
		// nothing but index prefixes in all 64 KiB (filled in by c13Machine): no Step ever finds an
		// instruction, each one must come back all the same
		regs.PC = uint16(sc.R0) << 8
		segs = nil
	case "selfmod":
		// LD HL,8000 ; LD DE,0107 ; LD BC,0010 ; LDIR ; JR $ - the copy (zeros) runs over the LDIR's own
		// opcode at 0109: from the third element on there is no LDIR any more, execution continues
		// with what the bytes now say (NOP ; OR B) and parks in the JR
		segs = []world.Seg{world.MkSeg(0x0100, []uint8{0x21, 0x00, 0x80, 0x11, 0x07, 0x01, 0x01, 0x10, 0x00, 0xed, 0xb0, 0x18, 0xfe})}
	case "ring":
		// three forward JPs: 0000 -> 5000 -> A000 -> 0000 (the last one is forward through the wrap)
		regs.PC = 0
		segs = []world.Seg{world.MkSeg(0x0000, []uint8{0xc3, 0x00, 0x50}), world.MkSeg(0x5000, []uint8{0xc3, 0x00, 0xa0}), world.MkSeg(0xa000, []uint8{0xc3, 0x00, 0x00})}
	case "fwdio":
		// forward-only blocks "OUT (n),A ; JR +7C" covering the address space
		regs.PC = 0
		for a := 0; a < 0x10000; a += 0x80 {
			segs = append(segs, world.MkSeg(uint16(a), []uint8{0xd3, uint8(a >> 7), 0x18, 0x7c}))
		}
	case "inc":
		// IN A,(C) ; AND n ; JR Z,loop : the ordinary device-wait loop (R advances 2+1+1)
		regs.BC = 0x0010
		segs = []world.Seg{world.MkSeg(0x0100, []uint8{0xed, 0x78, 0xe6, 0x00, 0x28, 0xfa})}
	case "io":
		// IN A,(12) ; OUT (34),A ; INC (HL) ; JR loop
		regs.HL = 0x8000
		segs = []world.Seg{world.MkSeg(0x0100, []uint8{0xdb, 0x12, 0xd3, 0x34, 0x34, 0x18, 0xf9})}
	default:
		regs = sc.Struct.Regs
		segs = sc.Struct.Segs()
		for _, h := range sc.Handlers {
			segs = append(segs, h.Seg())
		}
		segs = append(segs, sc.Table...)
	}
	return regs, segs
}

func c13Machine(sc *C13Sc) *world.Machine {
	regs, segs := c13Segs(sc)
	m, _ := world.NewMachine(regs, segs, sc.IOSeed, sc.Events)
	m.Bus.KeepPorts = true
	if sc.Prog == "pfx" {
		pat := [][]uint8{{0xdd}, {0xfd}, {0xdd, 0xfd}, {0xfd, 0xfd, 0xdd}}[sc.R0%4]
		for i := range m.Bus.Mem {
			m.Bus.Mem[i] = pat[i%len(pat)]
		}
	}
	if len(sc.BP) > 0 {
		m.CPU.BreakPoints = map[uint16]struct{}{}
		for _, a := range sc.BP {
			m.CPU.BreakPoints[a] = struct{}{}
		}
	}
	return m
}

type c13Sentinel struct{ what string }

// mkCtx builds the context chain; fire cancels it the way the scenario says,
// cleanup releases everything the harness created.
func mkCtx(sc *C13Sc, deadline time.Duration) (ctx context.Context, fire func(), sim *SimCtx, cleanup func()) {
	bg := context.Background()
	switch sc.Parent {
	case "withcancel":
		c, cancel := context.WithCancel(bg)
		return c, cancel, nil, cancel
	case "withtimeout":
		d := time.Hour
		if sc.By == "deadline" {
			d = deadline
		}
		c, cancel := context.WithTimeout(bg, d)
		return c, cancel, nil, cancel
	case "nested":
		p, pc := context.WithCancel(bg)
		type k struct{}
		c, cc := context.WithCancel(context.WithValue(p, k{}, 1))
		return c, pc, nil, func() { cc(); pc() }
	case "cancelcause":
		// the caller attaches a cause: ctx.Err() is still context.Canceled, context.Cause(ctx) is not
		c, cancel := context.WithCancelCause(bg)
		f := func() { cancel(errors.New("caller's own reason")) }
		return c, f, nil, f
	case "timeoutcause":
		d := time.Hour
		if sc.By == "deadline" {
			d = deadline
		}
		c, cancel := context.WithTimeoutCause(bg, d, errors.New("caller's own deadline reason"))
		return c, cancel, nil, cancel
	case "simctx":
		s := newSimCtx(sc.HoldCall)
		return s, s.cancel, s, func() { s.cancel(); s.releaseAll() }
	default:
		c, cancel := context.WithCancel(bg)
		return c, cancel, nil, cancel
	}
}

// c13One: one Run with one cancellation instant, inside the bubble.
func c13One(sc *C13Sc, cancelTick uint64, env *Env) *Violation {
	m := c13Machine(sc)
	deadline := time.Duration(int64(cancelTick) * sc.LatencyNS)
	if deadline <= 0 {
		deadline = time.Nanosecond
	}
	// The contexts the harness creates are deliberately NOT cancelled afterwards:
	// whatever Run started must go away when Run returns, not when the caller
	// gets round to cancelling its context. Anything left blocked makes the
	// bubble end with the deadlock panic, which is the leak oracle.
	ctx, fire, sim, _ := mkCtx(sc, deadline)
	t0 := time.Now()
	var published, fired bool
	var pubTick, releaseTick uint64
	var otherCh chan struct{}
	otherSent := false
	if sc.By == "other" {
		otherCh = make(chan struct{})
		go func() {
			if _, ok := <-otherCh; ok {
				fire()
			}
		}()
		defer func() {
			if !otherSent {
				close(otherCh) // the instant was never reached: let the canceller goroutine go
			}
		}()
	}
	if sc.By == "pre" {
		fire()
		fired = true
	}
	m.Hook = func(mm *world.Machine, _ world.Acc) {
		tick := mm.Bus.Tick
		if sc.LatencyNS > 0 {
			time.Sleep(time.Duration(sc.LatencyNS))
		}
		switch {
		case sc.By == "pre" && !published && releaseTick == 0:
			synctest.Wait()
			if sim != nil && sim.isHeld() {
				releaseTick = tick + uint64(sc.HoldTicks)
			} else {
				published, pubTick = true, tick
			}
		case (sc.By == "self" || sc.By == "other") && !fired && tick == cancelTick:
			fired = true
			if sc.By == "self" {
				fire()
			} else {
				otherSent = true
				otherCh <- struct{}{}
			}
			synctest.Wait()
			if sim != nil && sim.isHeld() {
				releaseTick = tick + uint64(sc.HoldTicks)
				env.Fire(fmt.Sprintf("watcher-held-in-Err-call-%d", sc.HoldCall))
			} else {
				published, pubTick = true, tick
			}
		case releaseTick != 0 && tick == releaseTick:
			sim.releaseAll()
			synctest.Wait()
			published, pubTick = true, tick
		case sc.By == "deadline" && !published && time.Since(t0) >= deadline:
			synctest.Wait()
			published, pubTick = true, tick
			fired = true
		}
		if published && tick > pubTick+c13B*8 {
			panic(&c13Sentinel{"liveness"})
		}
		if tick > c13MaxTicks {
			panic(&c13Sentinel{"budget"})
		}
	}
	var err error
	var sent *c13Sentinel
	func() {
		defer func() {
			if r := recover(); r != nil {
				if s, ok := r.(*c13Sentinel); ok {
					sent = s
					return
				}
				panic(r)
			}
		}()
		err = m.CPU.Run(ctx)
	}()
	m.Hook = nil
	T := m.Bus.Tick
	if sim != nil {
		sim.releaseAll()
	}
	what := fmt.Sprintf("prog=%s parent=%s cancel-by=%s at tick %d (hold Err call %d for %d ticks)", sc.Prog, sc.Parent, sc.By, cancelTick, sc.HoldCall, sc.HoldTicks)
	if sent != nil {
		if sent.what == "liveness" {
			return viol("bounded-liveness", "%s: cancellation was published at tick %d, Run was still executing %d accesses (> %d Steps) later", what, pubTick, T-pubTick, c13B)
		}
		if !fired {
			env.Class("never-cancelled-runs-on")
			// the harness itself tore this Run down with a panic through the device callback; what that leaves
			// behind is not "Run returned": the bubble's leak verdict is waived
			env.Waive = true
			return nil // program did not terminate and the cancel instant was never reached: no verdict
		}
		return viol("bounded-liveness", "%s: Run still executing at tick %d", what, T)
	}
	// nothing may keep running after Run has returned
	st := m.CPU.States
	synctest.Wait()
	time.Sleep(time.Millisecond)
	synctest.Wait()
	if m.Bus.Tick != T || m.CPU.States != st {
		return viol("quiescent-after-return", "%s: the CPU kept changing after Run returned (tick %d -> %d)", what, T, m.Bus.Tick)
	}
	if sc.By != "pre" {
		env.SimNS += uint64(time.Since(t0))
	}

	// Step-driven twin: Run must have stopped after a whole number of Steps
	tw := c13Machine(sc)
	natural := false
	var natErr error
	steps := 0
	for tw.Bus.Tick < T {
		si := tw.StepNoBoundary()
		steps++
		if tw.CPU.BreakPoints != nil {
			if _, hit := tw.CPU.BreakPoints[tw.CPU.PC]; hit {
				natural, natErr = true, z80.ErrBreakPoint
				break
			}
		}
		if si.Halted {
			natural, natErr = true, nil
			break
		}
	}
	if T == 0 {
		// zero Steps: legitimate only as an immediate cancellation
		if !(fired && err != nil && errors.Is(err, ctx.Err())) {
			return viol("error-value", "%s: Run returned %v without executing anything", what, err)
		}
		env.Class("returned-before-first-step")
		return nil
	}
	if tw.Bus.Tick > T {
		return viol("whole-steps", "%s: Run returned at tick %d, which falls inside an instruction (Step boundaries at ticks %d and %d)", what, T, tw.Bus.Tick-uint64(len(tw.Bus.Log)), tw.Bus.Tick)
	}
	if tw.Bus.Tick < T {
		return viol("ran-past-stop", "%s: repeated Step stops with %s at tick %d, Run went on to tick %d", what, errName(natErr), tw.Bus.Tick, T)
	}
	if natural {
		okNat := errors.Is(err, natErr) && (err == nil) == (natErr == nil)
		// The statements rank neither "stop rule" nor "context already cancelled" above the other: when the
		// cancellation was fired before this boundary, returning the context's error here is just as right.
		cerr := ctx.Err()
		okCtx := fired && err != nil && cerr != nil && errors.Is(err, cerr)
		if !okNat && !okCtx {
			return viol("error-value", "%s: at tick %d the stop rule fired (%s) but Run returned %v (context error: %v)", what, T, errName(natErr), err, cerr)
		}
		if !okNat {
			natural = false // ended by the cancellation after all
		}
	} else {
		cerr := ctx.Err()
		if err == nil || cerr == nil || !errors.Is(err, cerr) {
			return viol("error-value", "%s: Run returned %v at tick %d where no HALT was executed and no breakpoint reached; the context's error is %v", what, err, T, cerr)
		}
		if sc.By == "deadline" && !errors.Is(err, context.DeadlineExceeded) {
			return viol("error-value", "%s: deadline passed but Run returned %v", what, err)
		}
	}
	if d := world.DiffStates(tw.CPU.States, m.CPU.States, false); d != "" {
		return viol("twin-state", "%s: after %d Steps (tick %d) Step-driven!=Run-driven:%s", what, steps, T, d)
	}
	if tw.Bus.Mem != m.Bus.Mem || tw.Bus.Hash != m.Bus.Hash {
		return viol("twin-state", "%s: memory or bus history differs from %d repeated Steps", what, steps)
	}
	if sc.Resume && !natural && sc.Prog == "structured" {
		// the host calls Run again on the cancelled CPU; the program must finish as if never disturbed
		budget := m.Bus.Tick + 400000
		m.Hook = func(mm *world.Machine, _ world.Acc) {
			if mm.Bus.Tick > budget {
				panic(&c13Sentinel{"budget"})
			}
		}
		var err2 error
		ranAway := false
		func() {
			defer func() {
				if r := recover(); r != nil {
					if _, ok := r.(*c13Sentinel); ok {
						ranAway = true
						env.Waive = true // (torn down by the harness's own panic: not a return of Run)
						return
					}
					panic(r)
				}
			}()
			err2 = m.CPU.Run(context.Background())
		}()
		m.Hook = nil
		if !ranAway {
			var nat2 error
			stopped := false
			for i := 0; i < 200000 && !stopped; i++ {
				si := tw.StepNoBoundary()
				if tw.CPU.BreakPoints != nil {
					if _, hit := tw.CPU.BreakPoints[tw.CPU.PC]; hit {
						nat2, stopped = z80.ErrBreakPoint, true
						break
					}
				}
				if si.Halted {
					stopped = true
				}
			}
			if stopped {
				if (err2 == nil) != (nat2 == nil) || !errors.Is(err2, nat2) {
					return viol("resume-after-cancel", "%s: Run called again after the cancelled Run returned %v; repeated Step stops with %s", what, err2, errName(nat2))
				}
				if d := world.DiffStates(tw.CPU.States, m.CPU.States, false); d != "" || tw.Bus.Hash != m.Bus.Hash {
					return viol("resume-after-cancel", "%s: after resuming the cancelled Run the CPU differs from repeated Step:%s (ticks %d vs %d)", what, d, tw.Bus.Tick, m.Bus.Tick)
				}
				if sc.By != "pre" {
					env.Fire("resumed-after-cancel")
				}
			}
		}
	}
	if !env.Quiet && sc.By != "pre" { // "pre": the first Step races with the watcher by design; keep the statistics replayable
		env.Steps += uint64(steps)
		env.Ticks += T
		if !natural {
			env.Fire("cancelled/" + sc.By + "/" + sc.Parent)
			// access phase within the instruction at which the cancellation landed
			env.Class("cancel/%s/%s/%s", sc.Prog, sc.By, sc.Parent)
			env.NTPoints++
		} else {
			env.Fire("stopped-naturally/" + errName(natErr))
		}
	}
	return nil
}

// c13Leak: many consecutive Run calls in one bubble whose contexts are never
// cancelled by the caller afterwards; the bubble must end with no goroutine
// left blocked (process-wide goroutine counts are not used: the runtime starts
// helper goroutines lazily, which made a count-based oracle flaky).
func c13Leak(sc *C13Sc, env *Env) *Violation {
	// short terminating program / breakpoint / cancelled loops, alternating
	for i := 0; i < sc.Repeats; i++ {
		m, _ := world.NewMachine(world.Regs{PC: 0x0100, SP: 0xf000}, []world.Seg{world.MkSeg(0x0100, []uint8{0x00, 0x3c, 0x00, 0x76})}, 1, nil)
		variant := i % 3
		if variant == 1 {
			m.CPU.BreakPoints = map[uint16]struct{}{0x0102: {}}
		}
		if variant == 2 && sc.By != "never" {
			m.Bus.Mem[0x0100], m.Bus.Mem[0x0101] = 0x18, 0xfe // JR loop: ends only by cancellation
		}
		// the parent is never cleaned up by the harness (see c13One)
		ctx, fire, sim, _ := mkCtx(sc, time.Hour)
		if sc.By == "pre" {
			fire()
		}
		fired := false
		m.Hook = func(mm *world.Machine, _ world.Acc) {
			if variant == 2 && !fired && mm.Bus.Tick == uint64(3+i%7) {
				fired = true
				if sc.By == "other" {
					go fire()
				} else {
					fire()
				}
				synctest.Wait()
			}
			if mm.Bus.Tick > 200000 {
				panic(&c13Sentinel{"budget"})
			}
		}
		var err error
		var sent *c13Sentinel
		func() {
			defer func() {
				if r := recover(); r != nil {
					if s, ok := r.(*c13Sentinel); ok {
						sent = s
						return
					}
					panic(r)
				}
			}()
			err = m.CPU.Run(ctx)
		}()
		if sim != nil {
			sim.releaseAll()
		}
		if sent != nil {
			return viol("bounded-liveness", "leak round %d: Run did not return (parent=%s by=%s)", i, sc.Parent, sc.By)
		}
		_ = err
		if !env.Quiet && sc.By != "pre" {
			env.Ticks += m.Bus.Tick
		}
	}
	synctest.Wait()
	env.FireN("run-calls-goroutine-accounted", uint64(sc.Repeats))
	env.Class("leak/%s/%s", sc.Parent, sc.By)
	env.NonTrivial = true
	return nil
}

// c13Free: the race side-car (free threads, -race binary). Asserts the error
// value only - never a delay.
func c13Free(sc *C13Sc, env *Env) *Violation {
	for i := 0; i < sc.Repeats; i++ {
		m := c13Machine(sc)
		var ctx context.Context
		var cancel context.CancelFunc
		switch sc.Parent {
		case "withtimeout":
			ctx, cancel = context.WithTimeout(context.Background(), time.Hour)
		default:
			ctx, cancel = context.WithCancel(context.Background())
		}
		started := make(chan struct{})
		var once sync.Once
		var cancelled atomic.Bool
		var after uint64
		m.Hook = func(*world.Machine, world.Acc) {
			once.Do(func() { close(started) })
			// no delay is asserted on free threads; this only keeps the side-car from
			// hanging on a Run that never returns (the bubble schedules decide that)
			if cancelled.Load() {
				if after++; after > 300_000_000 {
					panic(&c13Sentinel{"free-gave-up"})
				}
			}
		}
		go func() {
			<-started
			spin := sc.FreeSpin
			if runtime.GOMAXPROCS(0) < 2 && spin > 10 {
				spin = 10 // (on one processor every yield hands Run a whole time slice)
			}
			for k := 0; k < spin; k++ {
				runtime.Gosched()
			}
			cancel()
			cancelled.Store(true)
		}()
		var err error
		gaveUp := false
		func() {
			defer func() {
				if r := recover(); r != nil {
					if _, ok := r.(*c13Sentinel); ok {
						gaveUp = true
						return
					}
					panic(r)
				}
			}()
			err = m.CPU.Run(ctx)
		}()
		cancel()
		if gaveUp {
			env.Class("free/gave-up-waiting(no verdict)")
			return nil
		}
		if err == nil || !errors.Is(err, context.Canceled) {
			return viol("error-value-free-running", "Run on a non-terminating loop returned %v after cancel() from another goroutine", err)
		}
	}
	env.FireN("free-running-cancel-under-race-detector", uint64(sc.Repeats))
	env.Class("free/%s/%s", sc.Prog, sc.Parent)
	env.NonTrivial = true
	return nil
}

// c13Reuse: the same CPU object serves many consecutive Runs; the host cancels
// each context right after its Run returned. A later Run with a live context
// must not be disturbed by anything an earlier Run left behind: it ends at its
// HALT with nil and in the state repeated Step gives. Which goroutine runs when
// is the Go scheduler's choice here (not owned: labelled in the evidence); the
// oracle is independent of it, and no delay is asserted.
func c13Reuse(sc *C13Sc, env *Env) *Violation {
	// short program: NOP ; HALT. long program: LD B,0 ; (DJNZ $) x3 ; HALT  (~770 Steps)
	short := []uint8{0x00, 0x76}
	long := []uint8{0x06, 0x00, 0x10, 0xfe, 0x10, 0xfe, 0x10, 0xfe, 0x76}
	m, _ := world.NewMachine(world.Regs{PC: 0x0100, SP: 0xf000}, []world.Seg{world.MkSeg(0x0100, short), world.MkSeg(0x0200, long)}, sc.IOSeed, nil)
	tw, _ := world.NewMachine(world.Regs{PC: 0x0200, SP: 0xf000}, []world.Seg{world.MkSeg(0x0200, long)}, sc.IOSeed, nil)
	for i := 0; i < 5000; i++ {
		if tw.StepNoBoundary().Halted {
			break
		}
	}
	want := tw.CPU.States
	mk := func() (context.Context, func()) {
		switch sc.Parent {
		case "withtimeout":
			return context.WithTimeout(context.Background(), time.Hour)
		case "nested":
			p, pc := context.WithCancel(context.Background())
			c, cc := context.WithCancel(p)
			return c, func() { pc(); cc() }
		default:
			return context.WithCancel(context.Background())
		}
	}
	for i := 0; i < sc.Repeats; i++ {
		ctxA, cancelA := mk()
		m.CPU.States = world.Regs{PC: 0x0100, SP: 0xf000}.States()
		if err := m.CPU.Run(ctxA); err != nil {
			return viol("reuse-error-value", "round %d: Run of NOP;HALT with a live context returned %v", i, err)
		}
		cancelA() // the host's deferred cancel, after Run has returned
		ctxB, cancelB := mk()
		m.CPU.States = world.Regs{PC: 0x0200, SP: 0xf000}.States()
		err := m.CPU.Run(ctxB)
		st, halt := m.CPU.States, m.CPU.HALT
		cancelB()
		if err != nil || !halt {
			return viol("reuse-error-value", "round %d: a Run whose context was never cancelled returned %v with HALT=%t at PC=%04x (the context cancelled before it belonged to the previous Run on this CPU)", i, err, halt, st.PC)
		}
		st.IR.Lo, want.IR.Lo = 0, 0
		if st != want {
			return viol("reuse-error-value", "round %d: Run with a live context ended in a different state than repeated Step:%s", i, world.DiffStates(want, st, true))
		}
		if i%8 == 3 {
			// the CPU has just halted (the halted indication is still set); the host loads PC with the long
			// program and calls Run with a context that is ALREADY cancelled: the context's error - or, if Run
			// got through the whole program before it noticed, nil on the executed HALT. Nothing else.
			ctxC, cancelC := mk()
			cancelC()
			m.CPU.States = world.Regs{PC: 0x0200, SP: 0xf000}.States()
			errC := m.CPU.Run(ctxC)
			stC := m.CPU.States
			stC.IR.Lo = 0
			if !(errC != nil && errors.Is(errC, ctxC.Err())) && !(errC == nil && stC == want && m.CPU.HALT) {
				return viol("reuse-error-value", "round %d: Run on a CPU that had halted before, with an already cancelled context and PC on a fresh program, returned %v at PC=%04x HALT=%t: neither the context's error nor the program's executed HALT", i, errC, stC.PC, m.CPU.HALT)
			}
			env.Fire("run-with-cancelled-context-on-a-halted-cpu")
		}
	}
	// fork: a device callback copies the CPU value while Run is in progress and gives the copy a memory
	// and port device of its own (a snapshot / a second machine started from this one); later the host
	// Runs the copy: that Run must come back.
	{
		m.CPU.States = world.Regs{PC: 0x0200, SP: 0xf000}.States()
		var snap *z80.CPU
		at := m.Bus.Tick + 20 + uint64(sc.IOSeed%200)
		m.Hook = func(mm *world.Machine, _ world.Acc) {
			if snap == nil && mm.Bus.Tick >= at {
				c := *mm.CPU
				nb := mm.Bus.Clone()
				c.Memory, c.IO = nb.Memory(), nb.IO()
				snap = &c
			}
		}
		ctx, cancel := mk()
		err := m.CPU.Run(ctx)
		cancel()
		m.Hook = nil
		if err != nil || snap == nil {
			return viol("reuse-error-value", "fork pass: Run with a live context returned %v (snapshot taken: %t)", err, snap != nil)
		}
		// (the copy's registers are those of the middle of an instruction: what it executes is its own
		// business - only that Run comes back, by itself or by its deadline, is demanded)
		ch := make(chan error, 1)
		ctx2, cancel2 := context.WithTimeout(context.Background(), 50*time.Millisecond)
		go func() { ch <- snap.Run(ctx2) }()
		select {
		case e := <-ch:
			cancel2()
			if e != nil && !errors.Is(e, context.DeadlineExceeded) && !errors.Is(e, z80.ErrBreakPoint) {
				return viol("reuse-error-value", "fork pass: Run on a copy of the CPU value taken by a device callback during Run returned %v", e)
			}
		case <-time.After(40 * time.Second):
			cancel2()
			return viol("bounded-liveness", "fork pass: a copy of the CPU value taken by a device callback during Run (own memory and ports) was Run afterwards with a 50 ms deadline: no return within 40 s of real time")
		}
		env.Fire("run-on-a-copy-taken-during-run")
	}
	env.FireN("runs-on-a-reused-cpu(late-cancel)", uint64(2*sc.Repeats))
	env.Class("reuse/%s", sc.Parent)
	env.NonTrivial = true
	return nil
}

func (c13) Exec(sci interface{}, env *Env) (res *Violation) {
	sc := sci.(*C13Sc)
	if sc.Kind == "free" {
		return c13Free(sc, env)
	}
	if sc.Kind == "reuse" {
		return c13Reuse(sc, env)
	}
	if env.T == nil {
		return viol("harness", "no *testing.T for a synctest bubble")
	}
	finished := false
	env.Waive = false
	func() {
		defer func() {
			if r := recover(); r != nil {
				msg := fmt.Sprint(r)
				if strings.Contains(msg, "deadlock") && strings.Contains(msg, "blocked goroutines remain") {
					if res == nil && !env.Waive {
						res = viol("goroutine-left-behind", "the bubble ended with goroutines still blocked: something Run started was never released (parent=%s by=%s kind=%s): %s", sc.Parent, sc.By, sc.Kind, msg)
					}
					return
				}
				panic(r)
			}
		}()
		synctest.Test(env.T, func(t *testing.T) {
			defer func() {
				if r := recover(); r != nil {
					res = viol("panic", "%v", r)
				}
				finished = true
			}()
			if sc.Kind == "leak" {
				res = c13Leak(sc, env)
				return
			}
			for i, tk := range sc.Ticks {
				if i > 0 {
					env.ExtraEvals++
				}
				if v := c13One(sc, tk, env); v != nil {
					v.Hint = tk
					res = v
					return
				}
			}
			synctest.Wait()
		})
	}()
	if res == nil && !finished {
		return viol("harness", "bubble did not finish")
	}
	if res == nil {
		env.NonTrivial = true
	}
	return res
}

func (c13) Shrink(sci interface{}, v *Violation) []interface{} {
	p := c13{}
	sc := sci.(*C13Sc)
	var out []interface{}
	if tk, ok := v.Hint.(uint64); ok && len(sc.Ticks) > 1 {
		n := Clone(p, sc).(*C13Sc)
		n.Ticks = []uint64{tk}
		out = append(out, n)
	}
	if sc.Kind == "leak" && sc.Repeats > 1 {
		for _, r := range []int{1, 3, sc.Repeats / 2} {
			if r < sc.Repeats {
				n := Clone(p, sc).(*C13Sc)
				n.Repeats = r
				out = append(out, n)
			}
		}
	}
	if len(sc.Ticks) == 1 && sc.Ticks[0] > 1 {
		for _, t := range []uint64{1, sc.Ticks[0] / 2, sc.Ticks[0] - 1} {
			if t >= 1 && t < sc.Ticks[0] {
				n := Clone(p, sc).(*C13Sc)
				n.Ticks = []uint64{t}
				out = append(out, n)
			}
		}
	}
	if sc.Prog == "structured" {
		n := Clone(p, sc).(*C13Sc)
		n.Prog, n.Struct, n.Handlers, n.Table, n.Events, n.BP = "jr", nil, nil, nil, nil, nil
		out = append(out, n)
	}
	if len(sc.Events) > 0 {
		n := Clone(p, sc).(*C13Sc)
		n.Events = nil
		out = append(out, n)
	}
	if len(sc.BP) > 0 {
		n := Clone(p, sc).(*C13Sc)
		n.BP = nil
		out = append(out, n)
	}
	if sc.HoldTicks > 1 {
		n := Clone(p, sc).(*C13Sc)
		n.HoldTicks = 1
		out = append(out, n)
	}
	return out
}
