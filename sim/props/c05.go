package props

import (
	"encoding/hex"
	"fmt"
	"sort"
	"strings"

	"github.com/koron-go/z80"
	"github.com/koron-go/z80/verifsim/gen"
	"github.com/koron-go/z80/verifsim/model"
	"github.com/koron-go/z80/verifsim/world"
)

// C05 — each Step makes exactly the instruction's memory and port accesses.
// The recorded bus history of every Step is compared with the bus-level
// reference model. Families: "sweep" (every encoding of the seven tables in
// turn, from corner-biased pre-states, optionally with a device raising a
// request in the middle of the instruction) and "program" (structured programs
// with interrupts, checked Step by Step including acceptance Steps).

// C05Case is one instruction of a sweep batch.
type C05Case struct {
	Bytes  string     `json:"bytes"` // instruction bytes placed at PC (wrapping)
	Regs   world.Regs `json:"regs"`
	EvAt   int        `json:"ev_at,omitempty"`   // raise a request from inside the EvAt-th access of the Step (1-based)
	EvKind string     `json:"ev_kind,omitempty"` // NMI | INT
}

// C05Acc is one acceptance case of a sweep: the request is in the slot when the Step begins, and the
// host - which keeps the request value - presents the same value again for a second acceptance.
type C05Acc struct {
	Regs world.Regs  `json:"regs"`
	Ev   world.Event `json:"ev"`
}

// C05Sc is a C05 scenario.
type C05Sc struct {
	Acc     []C05Acc  `json:"acc,omitempty"`
	Family  string    `json:"family"` // sweep | program
	MemSeed uint64    `json:"mem_seed"`
	IOSeed  uint64    `json:"io_seed"`
	Cases   []C05Case `json:"cases,omitempty"`
	// program family
	Prog     *gen.Prog     `json:"prog,omitempty"`
	Handlers []gen.CodeSeg `json:"handlers,omitempty"`
	Table    []world.Seg   `json:"table,omitempty"`
	Events   []world.Event `json:"events,omitempty"`
	MaxSteps int           `json:"max_steps,omitempty"`
	// NilIO: no I/O device attached (cpu.IO == nil): port traffic is unobservable, IN reads 0,
	// every memory access of the instruction must still happen
	NilIO bool `json:"nil_io,omitempty"`
	// Swap (program family): host replaces cpu.Memory/cpu.IO by equal-content devices before every Step (1) / copies the CPU struct too (2)
	Swap int `json:"swap,omitempty"`
	// Watch != 0 (program family): writes to [Watch, Watch+0x40) make the memory device overwrite
	// cpu.Interrupt with a fresh NMI (at most 8 times)
	Watch uint16 `json:"watch,omitempty"`
}

type c05 struct{}

func init() { Register(c05{}) }

func (c05) ID() string       { return "C05" }
func (c05) New() interface{} { return &C05Sc{} }

const c05Batch = 64

// encoding number k of the seven tables -> leading bytes
func c05Encoding(k int) []uint8 {
	t, op := k/256, uint8(k%256)
	switch t {
	case 0:
		return []uint8{op}
	case 1:
		return []uint8{0xcb, op}
	case 2:
		return []uint8{0xed, op}
	case 3:
		return []uint8{0xdd, op}
	case 4:
		return []uint8{0xfd, op}
	case 5:
		return []uint8{0xdd, 0xcb, 0, op}
	default:
		return []uint8{0xfd, 0xcb, 0, op}
	}
}

func cornerByte(r *world.Rng) uint8 {
	if r.Chance(1, 3) {
		return []uint8{0x00, 0x01, 0x7f, 0x80, 0xff, 0xfe}[r.Intn(6)]
	}
	return r.Byte()
}

func (c05) Gen(r *world.Rng, tier string, n int) interface{} {
	sc := &C05Sc{MemSeed: r.U64(), IOSeed: r.U64()}
	sc.NilIO = r.Chance(1, 8)
	if n%5 == 4 {
		sc.Family = "program"
		mode := r.Intn(3)
		p := gen.Structured(r, gen.Opts{IO: true, Blocks: r.Range(4, 20), MaxSubs: 3, EI: true, StartEI: r.Chance(3, 4)})
		p.Regs.IM = mode
		p.Regs.I = uint8(c07Table >> 8)
		sc.Prog = p
		hs := genHandlers(r, mode)
		sc.Handlers, sc.Table = hs.Handlers, hs.Table
		for i := r.Intn(4); i > 0; i-- {
			ev := hs.Kinds[r.Intn(len(hs.Kinds))]
			if mode == 0 && ev.Kind == world.EvINT && r.Chance(1, 3) {
				// the device supplies some other instruction (the program does not survive that in general - the
				// emulator resumes behind the overlaid bytes - but every Step is still checked on its own)
				a := gen.DataBase + 0x100 + uint16(r.Intn(0x200))
				lo, hi := uint8(a), uint8(a>>8)
				d := [][]uint8{{0x01, lo, hi}, {0x11, lo, hi}, {0x21, lo, hi}, {0x3a, lo, hi}, {0x32, lo, hi}, {0x2a, lo, hi}, {0x22, lo, hi},
					{0x00}, {0x3c}, {0x34}, {0x7e}, {0xd3, r.Byte()}, {0xdb, r.Byte()}, {0xed, 0x4b, lo, hi}, {0xdd, 0x21, lo, hi}, {0xcb, 0xc6}, {0x3e, r.Byte()},
					{0xc9}, {0xc1}, {0x86}, {0xe3}}[r.Intn(21)]
				if r.Chance(1, 3) {
					d = append(append([]uint8{}, d...), r.Bytes(r.Range(1, 3))...) // the device drives more bytes than the instruction needs
				}
				ev.Data = hex.EncodeToString(d)
			}
			if r.Bool() {
				ev.AtTick = uint64(r.Range(1, 1500))
				ev.Force = r.Chance(1, 4) // a device that overwrites the slot whatever it holds, also during an acceptance
			} else {
				ev.Boundary = r.Intn(300)
			}
			sc.Events = append(sc.Events, ev)
		}
		if r.Chance(1, 3) {
			// a write-watch device: every write into a window of the stack region posts an NMI (forced), so
			// the pushes of an acceptance themselves raise the next request
			sc.Watch = uint16(r.Range(gen.StackLo+0x800, gen.StackHi-0x40))
		}
		sc.MaxSteps = 1500
		if r.Chance(1, 5) {
			sc.Swap = r.Range(1, 2)
		}
		return sc
	}
	sc.Family = "sweep"
	sweepNo := n - (n+1)/5
	for i := 0; i < c05Batch; i++ {
		k := (sweepNo*c05Batch + i) % (7 * 256)
		b := c05Encoding(k)
		if k/256 >= 5 {
			b[2] = cornerByte(r)
		}
		// up to three operand bytes, corner biased
		for j := 0; j < 3; j++ {
			b = append(b, cornerByte(r))
		}
		regs := world.RandRegs(r)
		for _, pp := range []*uint16{&regs.HL, &regs.DE, &regs.BC, &regs.SP, &regs.IX, &regs.IY, &regs.PC} {
			if r.Chance(1, 2) {
				*pp = r.CornerU16()
			}
		}
		// operands overlapping the instruction's own bytes / the stack over the instruction
		if r.Chance(1, 6) {
			t := regs.PC + uint16(r.Range(0, 7)) - 2
			switch r.Intn(6) {
			case 0:
				regs.HL = t
			case 1:
				regs.SP = t
			case 2:
				regs.IX = t - uint16(int16(int8(b[len(b)-3])))
				regs.IY = regs.IX
			case 3:
				regs.DE = t
			case 4:
				regs.BC = t
			default:
				// absolute operand nn pointing at the instruction
				l := len(b)
				b[l-3], b[l-2] = uint8(t), uint8(t>>8)
				b[l-2], b[l-1] = uint8(t), uint8(t>>8)
			}
		}
		c := C05Case{Bytes: hex.EncodeToString(b), Regs: regs}
		if r.Chance(1, 5) {
			c.EvAt = r.Range(1, 6)
			c.EvKind = []string{"NMI", "INT"}[r.Intn(2)]
		}
		sc.Cases = append(sc.Cases, c)
	}
	// acceptance Steps from corner pre-states: the stack slot next to, on, or around the interrupted PC,
	// at the 0xFFFF wrap, anywhere
	for i := 0; i < 3; i++ {
		regs := world.RandRegs(r)
		regs.IFF1 = true
		if r.Chance(1, 3) {
			regs.PC = r.CornerU16()
		}
		switch r.Intn(8) {
		case 0, 1, 2:
			regs.SP = regs.PC + uint16(r.Range(0, 6)) - 1
		case 3:
			regs.SP = r.CornerU16()
		}
		ev := world.Event{Kind: world.EvINT}
		switch {
		case r.Chance(1, 5):
			ev.Kind = world.EvNMI
		case regs.IM == 0:
			nn := r.U16()
			d := [][]uint8{{0xc7 | uint8(r.Intn(8))<<3}, {0xcd, uint8(nn), uint8(nn >> 8)}, {0xcd, uint8(nn), uint8(nn >> 8)}, {0xc7 | uint8(r.Intn(8))<<3, r.Byte()},
				{0x32, uint8(nn), uint8(nn >> 8)}, {0x22, uint8(nn), uint8(nn >> 8)}, {0x34}, {0xe5}, {0xc3, uint8(nn), uint8(nn >> 8)}}[r.Intn(9)]
			ev.Data = hex.EncodeToString(d)
		case regs.IM == 2:
			ev.Data = hex.EncodeToString([]uint8{r.Byte() &^ 1})
		}
		sc.Acc = append(sc.Acc, C05Acc{Regs: regs, Ev: ev})
	}
	return sc
}

func preState(s z80.States) model.PreState {
	return model.PreState{A: s.AF.Hi, F: s.AF.Lo, B: s.BC.Hi, C: s.BC.Lo, D: s.DE.Hi, E: s.DE.Lo, H: s.HL.Hi, L: s.HL.Lo, IX: s.IX, IY: s.IY, SP: s.SP, PC: s.PC}
}

func fillMem(mem *[65536]uint8, seed uint64) {
	r := world.NewRng(seed)
	for i := 0; i < 65536; i += 8 {
		x := r.U64()
		for j := 0; j < 8; j++ {
			mem[i+j] = uint8(x >> (8 * j))
		}
	}
}

func sortedU16(a []uint16) []uint16 {
	b := append([]uint16(nil), a...)
	sort.Slice(b, func(i, j int) bool { return b[i] < b[j] })
	return b
}

func fmtAddrs(a []uint16) string {
	s := make([]string, len(a))
	for i, v := range a {
		s[i] = fmt.Sprintf("%04x", v)
	}
	return "[" + strings.Join(s, " ") + "]"
}

// checkStepBus compares the recorded history of one (non-acceptance) Step with
// the model's expectation computed from the pre-state. after: CPU after.
// instrBytes returns the pre-Step contents of the instruction's bytes.
func instrBytes(exp model.BusExp, pc uint16, peek func(uint16) uint8) []uint8 {
	b := make([]uint8, exp.Len)
	for i := range b {
		b[i] = peek(pc + uint16(i))
	}
	return b
}

// checkFetchValues: the bytes of the instruction at PC are fetched before the instruction does
// anything, so every one of them is read with the value memory held before the Step (a push or
// store of the same instruction that lands on its own operand bytes must not be seen by the fetch).
func checkFetchValues(exp model.BusExp, pre []uint8, before z80.States, log []world.Acc) *Violation {
	used := make([]bool, len(log))
	for i, want := range pre {
		addr := before.PC + uint16(i)
		found := false
		for j, a := range log {
			if !used[j] && a.Kind == world.MR && a.Addr == addr && a.Val == want {
				used[j], found = true, true
				break
			}
		}
		if !found {
			return viol("bus-fetch-values", "%s at PC=%04x: instruction byte %d at %04x held %02x before the Step but no read of that address returned it; history %s", exp.Class, before.PC, i, addr, want, world.FmtLog(log))
		}
	}
	return nil
}

func checkStepBus(exp model.BusExp, before z80.States, after *z80.CPU, log []world.Acc) *Violation {
	if after.IO == nil {
		// no device: nothing to see on the port side, the device "returns" 0
		var e2 model.BusExp = exp
		e2.Ports = nil
		for i := range e2.Writes {
			if e2.Writes[i].FromPort {
				// what an absent device "returns" is not specified (0, 0xFF ...): take the value from the history
				e2.Writes = append([]model.AV(nil), e2.Writes...)
				v := uint8(0)
				for _, a := range log {
					if a.Kind == world.MW && a.Addr == e2.Writes[i].Addr {
						v = a.Val
					}
				}
				e2.Writes[i] = model.AV{Addr: e2.Writes[i].Addr, Val: v}
			}
		}
		for _, a := range log {
			if a.Kind >= world.PI {
				return viol("bus-ports", "%s at PC=%04x: port access %s although no I/O device is attached", exp.Class, before.PC, a)
			}
		}
		exp = e2
		if exp.In != model.InNone && exp.In != model.InMem {
			exp.In = model.InNone // checked below through the register instead
		}
	}
	var reads, wantReads []uint16
	var writes []world.Acc
	var ports []world.Acc
	for _, a := range log {
		switch a.Kind {
		case world.MR:
			reads = append(reads, a.Addr)
		case world.MW:
			writes = append(writes, a)
		default:
			ports = append(ports, a)
		}
	}
	for i := 0; i < exp.Len; i++ {
		wantReads = append(wantReads, before.PC+uint16(i))
	}
	wantReads = append(wantReads, exp.Reads...)
	gr, wr := sortedU16(reads), sortedU16(wantReads)
	same := len(gr) == len(wr)
	for i := 0; same && i < len(gr); i++ {
		same = gr[i] == wr[i]
	}
	if !same {
		return viol("bus-reads", "%s at PC=%04x: memory reads %s; the instruction reads its %d bytes once each plus data %s (sorted: got %s want %s); history %s",
			exp.Class, before.PC, fmtAddrs(reads), exp.Len, fmtAddrs(exp.Reads), fmtAddrs(gr), fmtAddrs(wr), world.FmtLog(log))
	}
	// the first Len reads are the sequential fetches? Not required by the
	// statement (multiset) - but each instruction byte is read exactly once,
	// which the multiset comparison already enforces.

	// port log, ordered
	if len(ports) != len(exp.Ports) {
		return viol("bus-ports", "%s at PC=%04x: port accesses %s, expected %d; history %s", exp.Class, before.PC, world.FmtLog(ports), len(exp.Ports), world.FmtLog(log))
	}
	var inVal uint8
	for i, p := range exp.Ports {
		g := ports[i]
		if p.Out {
			if g.Kind != world.PO || uint8(g.Addr) != p.Port || g.Val != p.Val {
				return viol("bus-ports", "%s at PC=%04x: port access %s, expected OUT port %02x value %02x", exp.Class, before.PC, g, p.Port, p.Val)
			}
		} else {
			if g.Kind != world.PI || uint8(g.Addr) != p.Port {
				return viol("bus-ports", "%s at PC=%04x: port access %s, expected IN from port %02x", exp.Class, before.PC, g, p.Port)
			}
			inVal = g.Val
		}
	}
	// writes: multiset of (addr,value)
	type av struct {
		a uint16
		v uint8
	}
	var gw, ww []av
	for _, w := range writes {
		gw = append(gw, av{w.Addr, w.Val})
	}
	for _, w := range exp.Writes {
		v := w.Val
		if w.FromPort {
			v = inVal
		}
		ww = append(ww, av{w.Addr, v})
	}
	less := func(s []av) func(i, j int) bool {
		return func(i, j int) bool {
			if s[i].a != s[j].a {
				return s[i].a < s[j].a
			}
			return s[i].v < s[j].v
		}
	}
	sort.Slice(gw, less(gw))
	sort.Slice(ww, less(ww))
	same = len(gw) == len(ww)
	for i := 0; same && i < len(gw); i++ {
		same = gw[i] == ww[i]
	}
	if !same {
		return viol("bus-writes", "%s at PC=%04x: memory writes %s, expected (addr,value) pairs %v; history %s", exp.Class, before.PC, world.FmtLog(writes), ww, world.FmtLog(log))
	}
	// read-modify-write: read once, then write once
	if exp.RMW {
		for wi, a := range log {
			if a.Kind != world.MW {
				continue
			}
			seen := false
			for _, b := range log[:wi] {
				if b.Kind == world.MR && b.Addr == a.Addr {
					seen = true
				}
			}
			if !seen {
				return viol("bus-rmw-order", "%s at PC=%04x: %s written before it was read; history %s", exp.Class, before.PC, a, world.FmtLog(log))
			}
		}
	}
	// the value returned by the device is the value loaded
	if exp.In != model.InNone && exp.In != model.InMem {
		var got uint8
		s := after.States
		switch exp.In {
		case model.InA:
			got = s.AF.Hi
		case model.InB:
			got = s.BC.Hi
		case model.InC:
			got = s.BC.Lo
		case model.InD:
			got = s.DE.Hi
		case model.InE:
			got = s.DE.Lo
		case model.InH:
			got = s.HL.Hi
		case model.InL:
			got = s.HL.Lo
		}
		if got != inVal {
			return viol("in-value-loaded", "%s at PC=%04x: device returned %02x, destination register holds %02x", exp.Class, before.PC, inVal, got)
		}
	}
	return nil
}

// checkAcceptBus: an acceptance Step performs the two pushes (plus the two
// table reads in mode 2) and nothing else; in particular no fetch from memory.
func checkAcceptBus(before z80.States, req *z80.Interrupt, log []world.Acc) *Violation {
	var rd, wr []world.Acc
	for _, a := range log {
		switch a.Kind {
		case world.MR:
			rd = append(rd, a)
		case world.MW:
			wr = append(wr, a)
		default:
			return viol("acceptance-bus", "port access in an acceptance Step: %s", world.FmtLog(log))
		}
	}
	sp := before.SP
	if !(len(wr) == 2 && ((wr[0].Addr == sp-1 && wr[1].Addr == sp-2) || (wr[0].Addr == sp-2 && wr[1].Addr == sp-1))) {
		return viol("acceptance-bus", "acceptance at SP=%04x must write exactly SP-1 and SP-2: %s", sp, world.FmtLog(log))
	}
	if req.Type != z80.NMIType && before.IM == 2 && len(req.Data) > 0 {
		t := uint16(before.IR.Hi)<<8 | uint16(req.Data[0]&0xfe)
		if !(len(rd) == 2 && ((rd[0].Addr == t && rd[1].Addr == t+1) || (rd[0].Addr == t+1 && rd[1].Addr == t))) {
			return viol("acceptance-bus", "mode 2 acceptance must read exactly the table bytes %04x,%04x: %s", t, t+1, world.FmtLog(log))
		}
	} else if len(rd) != 0 {
		return viol("acceptance-bus", "no instruction byte may be fetched from memory in an acceptance Step: %s", world.FmtLog(log))
	}
	return nil
}

// opKey names an encoding without its operand bytes.
func opKey(b []uint8) string {
	switch b[0] {
	case 0xcb, 0xed:
		return hex.EncodeToString(b[:2])
	case 0xdd, 0xfd:
		if b[1] == 0xcb {
			return hex.EncodeToString([]uint8{b[0], b[1], b[3]})
		}
		return hex.EncodeToString(b[:2])
	}
	return hex.EncodeToString(b[:1])
}

// checkAcceptIM0: a mode-0 acceptance whose supplied instruction is not RST/CALL. Its bytes come from
// the interrupting device: no byte is fetched from memory, and the data accesses are exactly those of
// that instruction (the bus model evaluated with the device's bytes standing in at PC).
// expectAcceptIM0 is evaluated BEFORE the Step (it reads pre-Step memory); nil = no verdict.
func expectAcceptIM0(before z80.States, data []uint8, peek func(uint16) uint8) *model.BusExp {
	ov := func(a uint16) uint8 {
		if off := int(a - before.PC); off < len(data) {
			return data[off]
		}
		return peek(a)
	}
	exp := model.BusExpect(preState(before), ov)
	if !exp.Known || exp.Len > len(data) || isPushing(exp.Class) {
		return nil // supplied bytes are not exactly one modelled instruction, or one that pushes a return address (C07's subject)
	}
	for _, a := range append(append([]uint16(nil), exp.Reads...), addrsOf(exp.Writes)...) {
		if int(a-before.PC) < len(data) {
			return nil // data access inside the overlaid range: statement-silent
		}
	}
	exp.Len = 0 // nothing is fetched from memory
	return &exp
}

func isPushing(class string) bool {
	return strings.Contains(class, "CALL") || strings.Contains(class, "RST") || strings.Contains(class, "PUSH")
}

func addrsOf(w []model.AV) []uint16 {
	var out []uint16
	for _, x := range w {
		out = append(out, x.Addr)
	}
	return out
}

func isInvalidWarn(env *Env) bool {
	return strings.Contains(env.LogBuf.String(), "invalid code")
}

func (c05) Exec(sci interface{}, env *Env) *Violation {
	sc := sci.(*C05Sc)
	if sc.Family == "program" {
		return c05Program(sc, env)
	}
	m, _ := world.NewMachine(world.Regs{}, nil, sc.IOSeed, nil)
	if sc.NilIO {
		m.CPU.IO = nil
	}
	fillMem(&m.Bus.Mem, sc.MemSeed)
	peek := func(a uint16) uint8 { return m.Bus.Mem[a] }
	for i, c := range sc.Cases {
		b, err := hex.DecodeString(c.Bytes)
		if err != nil {
			return viol("harness", "bad case: %v", err)
		}
		st := c.Regs.States()
		a := st.PC
		for _, x := range b {
			m.Bus.Mem[a] = x
			a++
		}
		m.CPU.States = st
		m.CPU.Interrupt = nil
		m.CPU.HALT = false
		exp := model.BusExpect(preState(st), peek)
		pre := instrBytes(exp, st.PC, peek)
		var req *z80.Interrupt
		m.Hook = nil
		if c.EvAt > 0 {
			if c.EvKind == "NMI" {
				req = z80.NMIInterrupt()
			} else {
				req = &z80.Interrupt{Type: z80.IMType, Data: []uint8{0xff}}
			}
			at := c.EvAt
			m.Hook = func(mm *world.Machine, _ world.Acc) {
				if len(mm.Bus.Log) == at {
					mm.Post(req)
				}
			}
		}
		env.LogBuf.Reset()
		m.StepNoBoundary()
		env.Steps++
		enc := hex.EncodeToString(b[:min(len(b), 4)])
		if isInvalidWarn(env) {
			env.Class("unimplemented")
			continue
		}
		if !exp.Known {
			env.Class("unmodelled/%s", enc[:4])
			continue
		}
		what := fmt.Sprintf("case %d [%s] regs{%s}", i, c.Bytes, world.FmtStates(st))
		if v := checkStepBus(exp, st, m.CPU, m.Bus.Log); v != nil {
			v.Detail = what + ": " + v.Detail
			v.Hint = i
			return v
		}
		if v := checkFetchValues(exp, pre, st, m.Bus.Log); v != nil {
			v.Detail = what + ": " + v.Detail
			v.Hint = i
			return v
		}
		if c.EvAt > 0 && len(m.Bus.Log) >= c.EvAt {
			// raised in the middle of the instruction: the request must simply be pending afterwards
			if m.CPU.Interrupt == nil || !world.SameRequest(m.CPU.Interrupt, req) {
				return &Violation{Oracle: "mid-instruction-request", Detail: what + ": a request raised by a device callback during the Step is gone after it", Hint: i}
			}
			env.Fire("request-raised-mid-instruction/" + c.EvKind)
		}
		env.Class("enc/%s", exp.Class)
		env.Class("op/%s", opKey(b))
		env.Fire("encoding-checked")
		env.NTPoints++
	}
	for i, c := range sc.Acc {
		m.Hook = nil
		m.CPU.States = c.Regs.States()
		m.CPU.HALT = false
		req := c.Ev.Request() // the host keeps this value
		for pass := 0; pass < 2; pass++ {
			before := m.CPU.States
			copyReq := world.CloneRequest(req)
			d := req.Data
			rstCall := len(d) > 0 && (d[0]&0xc7 == 0xc7 || d[0] == 0xcd)
			var expAcc *model.BusExp
			if req.Type != z80.NMIType && before.IM == 0 && !rstCall {
				expAcc = expectAcceptIM0(before, d, peek)
				if expAcc == nil {
					break // (statement-silent: data accesses on the overlaid bytes, pushing forms other than RST/CALL)
				}
			}
			m.CPU.Interrupt = req
			si := m.StepNoBoundary()
			env.Steps++
			what := fmt.Sprintf("acceptance case %d, presentation %d of the same request value %s, regs{%s}", i, pass+1, world.FmtRequest(copyReq), world.FmtStates(before))
			if !si.Accepted {
				return &Violation{Oracle: "acceptance-expected", Detail: what + ": not consumed although acceptable", Hint: -(i + 1)}
			}
			var v *Violation
			if expAcc != nil {
				v = checkStepBus(*expAcc, before, m.CPU, m.Bus.Log)
			} else {
				v = checkAcceptBus(before, copyReq, m.Bus.Log)
			}
			if v != nil {
				v.Detail = what + ": " + v.Detail
				v.Hint = -(i + 1)
				return v
			}
			if !world.SameRequest(req, copyReq) {
				return &Violation{Oracle: "request-value-modified", Detail: what + ": the value the host keeps is " + world.FmtRequest(req) + " after the Step: the library wrote into it, the device's next acknowledge would not carry the bytes it means to", Hint: -(i + 1)}
			}
			env.Fire("acceptance-case-checked")
			// second presentation: from wherever the first one led, interrupts enabled again
			m.CPU.IFF1 = true
		}
	}
	env.Ticks += m.Bus.Tick
	env.NonTrivial = true
	return nil
}

func c05Program(sc *C05Sc, env *Env) *Violation {
	segs := sc.Prog.Segs()
	for _, h := range sc.Handlers {
		segs = append(segs, h.Seg())
	}
	segs = append(segs, sc.Table...)
	m, err := world.NewMachine(sc.Prog.Regs, segs, sc.IOSeed, sc.Events)
	if err != nil {
		return viol("harness", "bad scenario: %v", err)
	}
	if sc.NilIO {
		m.CPU.IO = nil
	}
	if sc.Watch != 0 {
		left := 8
		m.Hook = func(mm *world.Machine, a world.Acc) {
			if a.Kind == world.MW && a.Addr-sc.Watch < 0x40 && left > 0 {
				left--
				mm.Post(z80.NMIInterrupt())
				env.Fire("write-watch-device-posts-NMI")
			}
		}
	}
	peek := func(a uint16) uint8 { return m.Bus.Mem[a] }
	prevEI := false
	wantRETI, wantRETN := 0, 0
	for step := 0; step < sc.MaxSteps; step++ {
		m.Boundary()
		if sc.Swap != 0 && !sc.NilIO {
			m.SwapDevices(sc.Swap == 2)
		}
		if m.StaleCount() != 0 {
			return viol("stale-device", "step %d: %d accesses went to a Memory/IO value the host had already replaced", step, m.StaleCount())
		}
		before := m.CPU.States
		req := m.CPU.Interrupt
		willAccept := req != nil && (req.Type == z80.NMIType || before.IFF1)
		exp := model.BusExpect(preState(before), peek)
		pre := instrBytes(exp, before.PC, peek)
		isEI := peek(before.PC) == 0xfb
		var expAcc *model.BusExp
		if willAccept && req.Type != z80.NMIType && before.IM == 0 {
			if d := req.Data; len(d) > 0 && !(len(d) == 1 && d[0]&0xc7 == 0xc7) && d[0] != 0xcd {
				expAcc = expectAcceptIM0(before, d, peek)
			}
		}
		env.LogBuf.Reset()
		si := m.StepNoBoundary()
		env.Steps++
		what := fmt.Sprintf("step %d regs{%s}", step, world.FmtStates(before))
		if m.Mutated != "" {
			// (the bytes a device puts on the bus the next time are no longer the ones it meant to)
			return viol("request-value-modified", "%s: %s", what, m.Mutated)
		}
		if si.Accepted && !willAccept {
			// a maskable request with IFF1 clear: the Step must have executed the instruction at PC
			return viol("refusal-expected", "%s: maskable request %s was consumed although IFF1 was clear (IFF2=%t): the Step made the accesses of an acceptance, %s, instead of those of the instruction at PC", what, world.FmtRequest(req), before.IFF2, world.FmtLog(m.Bus.Log))
		}
		if si.Accepted {
			var v *Violation
			if d := req.Data; req.Type != z80.NMIType && before.IM == 0 && len(d) > 0 && !(len(d) == 1 && d[0]&0xc7 == 0xc7) && d[0] != 0xcd {
				if expAcc != nil {
					v = checkStepBus(*expAcc, before, m.CPU, m.Bus.Log)
					env.Fire("mode0-general-instruction-acceptance-checked")
				}
			} else {
				v = checkAcceptBus(before, req, m.Bus.Log)
			}
			if v != nil {
				v.Detail = what + ": " + v.Detail
				return v
			}
			env.Fire("acceptance-step-checked")
			env.NonTrivial = true
			prevEI = false
			continue
		}
		if willAccept && !(prevEI && req.Type != z80.NMIType) {
			// (one instruction after the enabling EI is allowed for a maskable request, as on silicon)
			return viol("acceptance-expected", "%s: request %s was not consumed although acceptable", what, world.FmtRequest(req))
		}
		prevEI = isEI
		if exp.Known && exp.Class == "RETN/RETI" && !isInvalidWarn(env) {
			if peek(before.PC+1) == 0x4d {
				wantRETI++
			} else {
				wantRETN++
			}
		}
		if isInvalidWarn(env) || !exp.Known {
			env.Class("program/unmodelled-or-unimplemented")
		} else if v := checkStepBus(exp, before, m.CPU, m.Bus.Log); v != nil {
			v.Detail = what + ": " + v.Detail
			return v
		} else if v := checkFetchValues(exp, pre, before, m.Bus.Log); v != nil {
			v.Detail = what + ": " + v.Detail
			return v
		}
		if si.Halted && m.Quiescent() {
			break
		}
	}
	// notifications: exactly once per executed RETN / RETI, at no other time (whole program, any instruction mix)
	if m.Cnt.RETI != wantRETI || m.Cnt.RETN != wantRETN {
		return viol("notifications", "the program executed %d RETI and %d RETN (bus history); the handlers were notified %d and %d times", wantRETI, wantRETN, m.Cnt.RETI, m.Cnt.RETN)
	}
	env.Ticks += m.Bus.Tick
	for k, v := range m.Raised {
		env.FireN("raised/"+k, uint64(v))
	}
	env.FireN("interrupts-accepted-in-program", uint64(m.Accepted))
	env.NTPoints++
	return nil
}

func (c05) Shrink(sci interface{}, v *Violation) []interface{} {
	p := c05{}
	sc := sci.(*C05Sc)
	var out []interface{}
	if sc.Family == "sweep" {
		if i, ok := v.Hint.(int); ok && i < 0 && (len(sc.Acc) > 1 || len(sc.Cases) > 0) {
			n := Clone(p, sc).(*C05Sc)
			n.Cases, n.Acc = nil, []C05Acc{sc.Acc[-i-1]}
			return []interface{}{n}
		}
		if i, ok := v.Hint.(int); ok && i >= 0 && len(sc.Cases) > 1 && i < len(sc.Cases) {
			n := Clone(p, sc).(*C05Sc)
			n.Cases = []C05Case{sc.Cases[i]}
			out = append(out, n)
		}
		if len(sc.Cases) == 1 {
			c := sc.Cases[0]
			if c.EvAt > 0 {
				n := Clone(p, sc).(*C05Sc)
				n.Cases[0].EvAt = 0
				out = append(out, n)
			}
			z := c.Regs
			for _, f := range []func(*world.Regs){
				func(r *world.Regs) { r.AF2, r.BC2, r.DE2, r.HL2 = 0, 0, 0, 0 },
				func(r *world.Regs) { r.R, r.I, r.IFF1, r.IFF2, r.IM = 0, 0, false, false, 0 },
				func(r *world.Regs) { r.IX = 0 }, func(r *world.Regs) { r.IY = 0 }, func(r *world.Regs) { r.BC = 0 },
				func(r *world.Regs) { r.DE = 0 }, func(r *world.Regs) { r.HL = 0 }, func(r *world.Regs) { r.AF = 0 },
				func(r *world.Regs) { r.SP = 0x8000 }, func(r *world.Regs) { r.PC = 0x0100 },
			} {
				y := z
				f(&y)
				if y != z {
					n := Clone(p, sc).(*C05Sc)
					n.Cases[0].Regs = y
					out = append(out, n)
				}
			}
		}
		return out
	}
	for i := range sc.Events {
		n := Clone(p, sc).(*C05Sc)
		n.Events = append(n.Events[:i], n.Events[i+1:]...)
		out = append(out, n)
	}
	if sc.MaxSteps > 1 {
		n := Clone(p, sc).(*C05Sc)
		n.MaxSteps = sc.MaxSteps / 2
		out = append(out, n)
	}
	for ci := range sc.Prog.Code {
		for ii := len(sc.Prog.Code[ci].Ins) - 1; ii >= 0; ii-- {
			s := sc.Prog.Code[ci].Ins[ii]
			nop := gen.NopIns(s)
			if s == nop || s == "76" {
				continue
			}
			n := Clone(p, sc).(*C05Sc)
			n.Prog.Code[ci].Ins[ii] = nop
			out = append(out, n)
		}
	}
	return out
}
