package props

import (
	"context"
	"encoding/hex"
	"errors"
	"fmt"
	"time"

	"github.com/koron-go/z80"
	"github.com/koron-go/z80/verifsim/gen"
	"github.com/koron-go/z80/verifsim/world"
)

// C08 — Run is exactly repeated Step and stops only at a breakpoint or an
// executed HALT. Twin worlds: one driven by Run, one by Step with the stop
// rule applied by the harness; "a HALT was executed" is read off the bus
// history, not off cpu.HALT.

// HostOp is one action of the simulated host program.
type HostOp struct {
	Op    string   `json:"op"`              // run | step | bp | stale | raise
	N     int      `json:"n,omitempty"`     // step: count; raise: index into Events
	Add   []uint16 `json:"add,omitempty"`   // bp
	Del   []uint16 `json:"del,omitempty"`   // bp
	SetBP string   `json:"setbp,omitempty"` // bp: "nil" | "empty" | ""
}

// C08Sc is a C08 scenario.
type C08Sc struct {
	Family   string        `json:"family"` // structured | wrap
	Prog     gen.Prog      `json:"prog"`
	Handlers []gen.CodeSeg `json:"handlers"`
	Table    []world.Seg   `json:"table"`
	IOSeed   uint64        `json:"io_seed"`
	BP       []uint16      `json:"bp"`
	NilBP    bool          `json:"nil_bp"`
	Events   []world.Event `json:"events"` // AtTick / OnRet events fire by themselves; others are raised by a "raise" host op
	Host     []HostOp      `json:"host"`
	// BPEdits: a device callback edits cpu.BreakPoints from inside an access while Run executes
	BPEdits []C08BPEdit `json:"bp_edits,omitempty"`
	// Dumb: both worlds run directly on the library's DumbMemory (ports stay on the recording device):
	// the stop point is then compared through the registers incl. R instead of the tick count, and a
	// Run that does not come back is caught by a real-time watchdog.
	Dumb bool `json:"dumb,omitempty"`
	// Block family: one block instruction in a hostile layout (C09's free layout: wrap at 0xFFFF,
	// ranges over the instruction itself), breakpoint behind it
	Block *C09Sc `json:"block,omitempty"`
	// NilIO: no I/O device attached in either world (requests are raised by the memory device all the same)
	NilIO bool `json:"nil_io,omitempty"`
	// MaxSteps > 0: the Step-driven twin may need this many Steps per Run (family "long")
	MaxSteps int `json:"max_steps,omitempty"`
}

// C08BPEdit is a breakpoint edit made by a device callback at a tick.
type C08BPEdit struct {
	AtTick  uint64   `json:"at_tick"`
	Replace bool     `json:"replace"` // assign a fresh map (true) or add to the existing one in place (a nil set is always replaced)
	Set     []uint16 `json:"set"`
}

type c08 struct{}

func init() { Register(c08{}) }

func (c08) ID() string       { return "C08" }
func (c08) New() interface{} { return &C08Sc{} }

const c08MaxSteps = 3000

func (c08) Gen(r *world.Rng, tier string, n int) interface{} {
	sc := &C08Sc{IOSeed: r.U64()}
	mode := r.Intn(3)
	if n%8 == 3 {
		// Run over a block instruction in C09's hostile layouts (event-free scenarios of its generator)
		sc.Family = "block"
		var b *C09Sc
		for k := 0; ; k++ {
			b = c09{}.Gen(r, tier, r.Intn(16)).(*C09Sc) // n/16%3 == 0: the event-free, free-layout family
			b.DumbLen = 0
			cnt := b.Regs.BC
			if b.Op&3 >= 2 {
				cnt >>= 8
			}
			if b.Op&0x10 != 0 && cnt > 0 && cnt <= 700 {
				break
			}
		}
		sc.Block = b
		sc.Prog = gen.Prog{Regs: b.Regs, HaltAddr: b.Regs.PC + 2}
		sc.BP = []uint16{b.Regs.PC + 2}
		if r.Chance(1, 3) {
			sc.BP = append(sc.BP, b.Regs.PC) // a breakpoint on the repeating instruction itself
		}
		sc.Dumb = r.Chance(1, 3)
		if !sc.Dumb && r.Chance(1, 3) {
			// while the instruction repeats (PC stays where it is) a device arms a breakpoint on that very
			// address, in place: the Step in progress is the last one
			sc.BPEdits = []C08BPEdit{{AtTick: uint64(r.Range(3, 40)), Set: []uint16{b.Regs.PC}}}
		}
		for i := r.Range(1, 4); i > 0; i-- {
			sc.Host = append(sc.Host, HostOp{Op: "run"})
		}
		return sc
	}
	if n%256 == 21 {
		// long runs: the stop (HALT or breakpoint) comes thousands of Steps into the Run, on or next to a
		// Step index that is a multiple of a power of two - whatever Run does only every so often
		// (polling, batching) must not move the stop point
		sc.Family = "long"
		T := r.Pick(4096, 4096, 8192, 12288, 16384, 1024, 2048, 32768, 65536, 256*r.Range(1, 200), r.Range(3000, 70000)) + r.Pick(0, 0, 0, 1, -1)
		regs := world.RandRegs(r)
		regs.SP, regs.IFF1, regs.IFF2 = 0x9000, false, false
		if T <= 60000 && r.Bool() {
			// a NOP sled (memory is all zero): the HALT is the T-th instruction
			start := uint16(r.Range(0x0100, 0x0800))
			regs.PC = start
			sc.Prog = gen.Prog{Code: []gen.CodeSeg{{Addr: start + uint16(T-1), Ins: []string{"76"}}}, Regs: regs, HaltAddr: start + uint16(T-1)}
			if r.Bool() {
				// ... or a breakpoint is reached by the K-th Step, K of the same kind
				K := r.Pick(4096, 8192, 1024, 2048, 256*r.Range(1, 200)) + r.Pick(0, 0, 1, -1)
				if K < T {
					sc.BP = []uint16{start + uint16(K)}
				}
			}
		} else {
			// p NOPs ; LD BC,n ; loop: DEC BC ; LD A,B ; OR C ; JP NZ,loop ; HALT - the HALT is Step p+4n+2
			p := (T - 2) % 4
			cnt := (T - 2 - p) / 4
			var ins []string
			for i := 0; i < p; i++ {
				ins = append(ins, "00")
			}
			loop := 0x0100 + p + 3
			ins = append(ins, hex.EncodeToString([]uint8{0x01, uint8(cnt), uint8(cnt >> 8)}), "0b", "78", "b1",
				hex.EncodeToString([]uint8{0xc2, uint8(loop), uint8(loop >> 8)}), "76")
			regs.PC = 0x0100
			sc.Prog = gen.Prog{Code: []gen.CodeSeg{{Addr: 0x0100, Ins: ins}}, Regs: regs, HaltAddr: uint16(loop + 6)}
		}
		sc.MaxSteps = T + 16
		sc.Host = []HostOp{{Op: "run"}, {Op: "run"}}
		return sc
	}
	if n%8 == 7 {
		// PC wrap-around family: straight-line code across 0xFFFF -> 0x0000
		sc.Family = "wrap"
		start := uint16(0xfff0 + r.Intn(14))
		var ins []string
		addr := start
		for addr >= 0x8000 || addr < 0x0030 {
			var b []uint8
			switch r.Intn(4) {
			case 0:
				b = []uint8{0x3e, r.Byte()}
			case 1:
				b = []uint8{0x01, r.Byte(), r.Byte()}
			case 2:
				b = []uint8{0xcb, r.Byte()&0xf8 | uint8(r.Intn(6))}
			default:
				b = []uint8{[]uint8{0x00, 0x04, 0x0c, 0x3c, 0x2f, 0x37, 0x07}[r.Intn(7)]}
			}
			ins = append(ins, hex.EncodeToString(b))
			addr += uint16(len(b))
		}
		ins = append(ins, "76")
		regs := world.RandRegs(r)
		regs.PC, regs.SP, regs.IFF1, regs.IFF2 = start, 0x9000, false, false
		sc.Prog = gen.Prog{Code: []gen.CodeSeg{{Addr: start, Ins: ins}}, Regs: regs, HaltAddr: addr}
		for i := r.Intn(3); i > 0; i-- {
			sc.BP = append(sc.BP, r.PickU16(0x0000, 0x0001, 0x0002, 0xffff, 0xfffe, uint16(r.Intn(0x30)), addr))
		}
	} else {
		sc.Family = "structured"
		sc.Dumb = r.Chance(1, 8)
		sc.NilIO = !sc.Dumb && r.Chance(1, 8)
		o := gen.Opts{IO: true, Blocks: r.Range(3, 16), MaxSubs: 3, EI: true, StartEI: r.Chance(3, 4)}
		p := gen.Structured(r, o)
		p.Regs.IM = mode
		p.Regs.I = uint8(c07Table >> 8)
		sc.Prog = *p
		hs := genHandlers(r, mode)
		sc.Handlers, sc.Table = hs.Handlers, hs.Table
		for i := r.Intn(4); i > 0; i-- {
			ev := hs.Kinds[r.Intn(len(hs.Kinds))]
			switch r.Intn(6) {
			case 0:
				ev.OnRet = true
			case 1: // raised by the host between two calls
			default:
				ev.AtTick = uint64(r.Range(1, 1200))
				ev.Force = r.Chance(1, 4) // a device that overwrites the slot, possibly during an acceptance
			}
			if sc.Dumb && ev.AtTick != 0 {
				ev.AtTick, ev.Force = 0, false // no memory ticks on the bare library type: raised by the host instead
			}
			sc.Events = append(sc.Events, ev)
		}
		// breakpoints
		addrs := instrAddrs(p)
		for i := r.Intn(4); i > 0; i-- {
			switch r.Intn(8) {
			case 0:
				sc.BP = append(sc.BP, p.Regs.PC)
			case 1:
				sc.BP = append(sc.BP, p.HaltAddr)
			case 2:
				sc.BP = append(sc.BP, addrs[r.Intn(len(addrs))]+1) // possibly inside a multi-byte instruction
			case 3:
				sc.BP = append(sc.BP, r.PickU16(0x0038, 0x0066, c07HBase, c07HBase+0x80, gen.SubBase))
			case 4:
				sc.BP = append(sc.BP, r.U16())
			default:
				sc.BP = append(sc.BP, addrs[r.Intn(len(addrs))])
			}
		}
	}
	if len(sc.BP) == 0 {
		sc.NilBP = r.Bool()
	}
	if sc.Family == "structured" && !sc.Dumb && r.Chance(1, 4) {
		a := instrAddrs(&sc.Prog)
		for i := r.Range(1, 2); i > 0; i-- {
			e := C08BPEdit{AtTick: uint64(r.Range(1, 600)), Replace: r.Bool()}
			for k := r.Range(0, 2); k > 0; k-- {
				e.Set = append(e.Set, a[r.Intn(len(a))])
			}
			sc.BPEdits = append(sc.BPEdits, e)
		}
	}
	// host script
	nops := r.Range(1, 8)
	for i := 0; i < nops; i++ {
		switch x := r.Intn(100); {
		case x < 60 || i == 0:
			sc.Host = append(sc.Host, HostOp{Op: "run"})
		case x < 70:
			sc.Host = append(sc.Host, HostOp{Op: "step", N: r.Range(1, 5)})
		case x < 76:
			sc.Host = append(sc.Host, HostOp{Op: "stale"})
		case x < 78:
			sc.Host = append(sc.Host, HostOp{Op: "swap", N: r.Range(1, 2)})
		case x < 80:
			sc.Host = append(sc.Host, HostOp{Op: "poke", N: r.Pick(0x00, 0x3c, 0x76, 0xc9, 0x04)})
		case x < 92:
			op := HostOp{Op: "bp"}
			switch r.Intn(5) {
			case 0:
				op.SetBP = "nil"
			case 1:
				op.SetBP = "empty"
			case 2:
				if len(sc.BP) > 0 {
					op.Del = []uint16{sc.BP[r.Intn(len(sc.BP))]}
				}
			default:
				op.Add = []uint16{sc.Prog.HaltAddr}
				if sc.Family == "structured" && r.Bool() {
					a := instrAddrs(&sc.Prog)
					op.Add = []uint16{a[r.Intn(len(a))]}
				}
			}
			sc.Host = append(sc.Host, op)
		default:
			for j, e := range sc.Events {
				if e.AtTick == 0 && !e.OnRet {
					sc.Host = append(sc.Host, HostOp{Op: "raise", N: j})
					break
				}
			}
		}
	}
	sc.Host = append(sc.Host, HostOp{Op: "run"}, HostOp{Op: "run"})
	if r.Chance(1, 3) {
		// the program is parked on its HALT by now: the host replaces that very byte and runs again
		sc.Host = append(sc.Host, HostOp{Op: "poke", N: r.Pick(0x00, 0x3c, 0x04, 0x18)}, HostOp{Op: "run"}, HostOp{Op: "run"})
	}
	return sc
}

// instrAddrs lists the addresses of the instructions of the main program.
func instrAddrs(p *gen.Prog) []uint16 {
	var out []uint16
	a := p.Code[0].Addr
	for _, s := range p.Code[0].Ins {
		out = append(out, a)
		a += uint16(len(s) / 2)
	}
	return out
}

type overrun struct{ tick uint64 }

type c08World struct {
	m       *world.Machine
	lastHLT bool // last op ended with an executed HALT and nothing happened since
}

func c08New(sc *C08Sc) (*world.Machine, error) {
	if sc.Block != nil {
		m, _ := world.NewMachine(sc.Block.Regs, nil, sc.IOSeed, nil)
		m.Bus.Mem = *c09Image(sc.Block)
		m.Bus.KeepPorts = true
		m.CPU.BreakPoints = map[uint16]struct{}{}
		for _, a := range sc.BP {
			m.CPU.BreakPoints[a] = struct{}{}
		}
		if sc.Dumb {
			dm := make(z80.DumbMemory, 65536)
			copy(dm, m.Bus.Mem[:])
			m.CPU.Memory = dm
		}
		return m, nil
	}
	segs := sc.Prog.Segs()
	for _, h := range sc.Handlers {
		segs = append(segs, h.Seg())
	}
	segs = append(segs, sc.Table...)
	// only self-firing events are given to the controller
	var auto []world.Event
	for _, e := range sc.Events {
		if e.AtTick != 0 || e.OnRet {
			auto = append(auto, e)
		}
	}
	m, err := world.NewMachine(sc.Prog.Regs, segs, sc.IOSeed, auto)
	if err != nil {
		return nil, err
	}
	m.Bus.KeepPorts = true
	if sc.Dumb {
		dm := make(z80.DumbMemory, 65536)
		copy(dm, m.Bus.Mem[:])
		m.CPU.Memory = dm
	}
	if sc.NilIO {
		m.CPU.IO = nil
	}
	if !sc.NilBP || len(sc.BP) > 0 {
		m.CPU.BreakPoints = map[uint16]struct{}{}
		for _, a := range sc.BP {
			m.CPU.BreakPoints[a] = struct{}{}
		}
	}
	return m, nil
}

func applyBP(cpu *z80.CPU, op HostOp) {
	switch op.SetBP {
	case "nil":
		cpu.BreakPoints = nil
		return
	case "empty":
		cpu.BreakPoints = map[uint16]struct{}{}
		return
	}
	if cpu.BreakPoints == nil && len(op.Add) > 0 {
		cpu.BreakPoints = map[uint16]struct{}{}
	}
	for _, a := range op.Add {
		cpu.BreakPoints[a] = struct{}{}
	}
	for _, a := range op.Del {
		delete(cpu.BreakPoints, a)
	}
}

// stepRun is the specification of Run expressed with Step: at least one
// Step; after each Step the breakpoint test on the new PC first, then "a HALT
// instruction was executed" decided from the bus history.
func stepRun(m *world.Machine, maxSteps int) (err error, steps int, haltExec bool, ok bool) {
	dm, bare := m.CPU.Memory.(z80.DumbMemory)
	for steps < maxSteps {
		var before [4]uint8
		if bare {
			for i := range before {
				before[i] = dm[m.CPU.PC+uint16(i)]
			}
		}
		si := m.StepNoBoundary()
		steps++
		if bare {
			// no memory history on the bare library type: HALT executed = not an acceptance, the byte at PC was
			// 76h BEFORE the Step (a block instruction may write one there) and PC did not move. If PC moved
			// over nothing but index prefixes onto a 76h, the Step either executed that HALT (prefixes ignored in
			// the same Step) or consumed a prefix on its own: registers cannot tell (how R moves is nobody's
			// promise) - the scenario ends there without verdict.
			k := m.CPU.PC - si.Before.PC
			si.Halted = !si.Accepted && k == 0 && before[0] == 0x76
			if !si.Accepted && k >= 1 && k <= 3 && before[k] == 0x76 {
				pfx := true
				for i := uint16(0); i < k; i++ {
					pfx = pfx && (before[i] == 0xdd || before[i] == 0xfd)
				}
				if pfx {
					return nil, steps, false, false
				}
			}
		}
		if m.CPU.BreakPoints != nil {
			if _, hit := m.CPU.BreakPoints[m.CPU.PC]; hit {
				return z80.ErrBreakPoint, steps, si.Halted, true
			}
		}
		if si.Halted {
			return nil, steps, true, true
		}
	}
	return nil, steps, false, false
}

func errName(e error) string {
	switch {
	case e == nil:
		return "nil"
	case errors.Is(e, z80.ErrBreakPoint):
		return "ErrBreakPoint"
	default:
		return e.Error()
	}
}

// safeRun calls cpu.Run and converts the tick-budget sentinel into a result.
func safeRun(cpu *z80.CPU, ctx context.Context) (err error, over *overrun) {
	defer func() {
		if r := recover(); r != nil {
			if o, ok := r.(*overrun); ok {
				over = o
				return
			}
			panic(r)
		}
	}()
	return cpu.Run(ctx), nil
}

func (c08) Exec(sci interface{}, env *Env) *Violation {
	sc := sci.(*C08Sc)
	tw, err := c08New(sc)
	if err != nil {
		return viol("harness", "bad scenario: %v", err)
	}
	rn, _ := c08New(sc)
	var budget uint64
	edit := func(m *world.Machine) {
		for _, e := range sc.BPEdits {
			if e.AtTick != m.Bus.Tick {
				continue
			}
			// "PC is a member of BreakPoints" is read literally: the public field's value at the
			// moment of the test. So a device callback may edit the set in place, assign a fresh
			// map, or arm a CPU that entered Run with a nil set.
			if e.Replace || m.CPU.BreakPoints == nil {
				m.CPU.BreakPoints = map[uint16]struct{}{}
			}
			for _, a := range e.Set {
				m.CPU.BreakPoints[a] = struct{}{}
			}
		}
	}
	tw.Hook = func(m *world.Machine, a world.Acc) { edit(m) }
	rn.Hook = func(m *world.Machine, a world.Acc) {
		edit(m)
		if budget != 0 && m.Bus.Tick > budget {
			budget = 0
			panic(&overrun{m.Bus.Tick})
		}
	}
	parked := false // the previous op was a Run that returned nil and nothing was raised since
	for i, op := range sc.Host {
		what := fmt.Sprintf("host op #%d %s", i, op.Op)
		switch op.Op {
		case "bp":
			applyBP(tw.CPU, op)
			applyBP(rn.CPU, op)
			continue
		case "stale":
			tw.CPU.HALT, rn.CPU.HALT = true, true
			env.Fire("stale-HALT-flag")
			continue
		case "raise":
			if op.N < len(sc.Events) {
				tw.RaiseNow(sc.Events[op.N], "host")
				rn.RaiseNow(sc.Events[op.N], "host")
				parked = false
			}
			continue
		case "poke":
			// DMA / program reload between two calls: the byte at the current PC or at a given address
			a := tw.CPU.PC
			if len(op.Add) > 0 {
				a = op.Add[0]
			}
			for _, mm := range []*world.Machine{tw, rn} {
				mm.Bus.Mem[a] = uint8(op.N)
				if dm, ok := mm.CPU.Memory.(z80.DumbMemory); ok {
					dm[a] = uint8(op.N)
				}
			}
			env.Fire("host-pokes-memory-between-calls")
			parked = false
			continue
		case "swap":
			// the host replaces cpu.Memory / cpu.IO by other values over the same contents (N=2: on a struct copy of the CPU)
			tw.SwapDevices(op.N == 2)
			rn.SwapDevices(op.N == 2)
			env.Fire("host-swaps-devices")
			continue
		case "step":
			for k := 0; k < op.N; k++ {
				tw.StepNoBoundary()
				rn.StepNoBoundary()
			}
			parked = false
		case "run":
			t0 := tw.Bus.Tick
			before := tw.CPU.States
			slotBefore := tw.CPU.Interrupt
			nPres := len(tw.Presented)
			wantErr, steps, haltExec, ok := stepRun(tw, max(c08MaxSteps, sc.MaxSteps))
			if sc.Family == "long" && steps > 1 {
				env.Fire("long-run-stop-after-thousands-of-steps")
			}
			if !ok {
				env.Class("stop/twin-does-not-stop")
				return nil // the Step-driven twin itself does not stop: no verdict
			}
			env.Steps += uint64(steps)
			budget = tw.Bus.Tick + 64
			// half of the scenarios: the usual host pattern, a context per call that is released after the call
			release := func() {}
			runCtx := func() context.Context {
				if sc.IOSeed&2 == 0 {
					return context.Background()
				}
				ctx, cancel := context.WithCancel(context.Background())
				release = cancel
				return ctx
			}
			memBefore := rn.Bus.Mem
			var gotErr error
			var over *overrun
			if sc.Dumb {
				// nothing ticks on the bare memory: a Run that does not stop is caught by the clock
				type res struct {
					e error
					o *overrun
				}
				ch := make(chan res, 1)
				go func() {
					e, o := safeRun(rn.CPU, runCtx())
					ch <- res{e, o}
				}()
				select {
				case r := <-ch:
					gotErr, over = r.e, r.o
				case <-time.After(30 * time.Second):
					return viol("run-overrun", "%s: Run on the library's DumbMemory did not return within 30 s of real time; repeated Step stops after %d Steps with %s", what, steps, errName(wantErr))
				}
			} else {
				gotErr, over = safeRun(rn.CPU, runCtx())
			}
			release()
			budget = 0
			if gotErr != nil && errors.Is(gotErr, context.Canceled) {
				// (the only contexts around are the host's own per-call ones, each cancelled AFTER its Run had
				// returned; which Run a late watcher hits is the Go scheduler's choice: labelled accordingly)
				return viol("error-value-free-running", "%s: Run returned %v although its own context was live until after it had returned (the host cancels each call's context right after the call); repeated Step gives %s after %d Steps", what, gotErr, errName(wantErr), steps)
			}
			if over != nil {
				return viol("run-overrun", "%s: Run was still executing at tick %d; repeated Step stops at tick %d after %d Steps with %s (started at tick %d, PC=%04x)", what, over.tick, tw.Bus.Tick, steps, errName(wantErr), t0, before.PC)
			}
			if !errors.Is(gotErr, wantErr) || (wantErr == nil) != (gotErr == nil) {
				return viol("run-result", "%s: Run returned %s, repeated Step gives %s after %d Steps (PC=%04x -> %04x; Run left PC=%04x at tick %d vs %d)", what, errName(gotErr), errName(wantErr), steps, before.PC, tw.CPU.PC, rn.CPU.PC, rn.Bus.Tick, tw.Bus.Tick)
			}
			if rn.Bus.Tick != tw.Bus.Tick {
				return viol("run-stop-point", "%s: Run stopped at tick %d (PC=%04x), repeated Step stops at tick %d (PC=%04x) after %d Steps with %s", what, rn.Bus.Tick, rn.CPU.PC, tw.Bus.Tick, tw.CPU.PC, steps, errName(wantErr))
			}
			if !(wantErr != nil && haltExec) { // breakpoint on the HALT address: flag value not specified
				if rn.CPU.HALT != haltExec {
					return viol("halt-indication", "%s: Run returned %s with HALT=%t; a HALT instruction %s executed in its last Step", what, errName(gotErr), rn.CPU.HALT, map[bool]string{true: "was", false: "was not"}[haltExec])
				}
			}
			if dmr, ok := rn.CPU.Memory.(z80.DumbMemory); ok {
				copy(rn.Bus.Mem[:], dmr) // the image lives in the library type: mirror it for the comparisons below
				copy(tw.Bus.Mem[:], tw.CPU.Memory.(z80.DumbMemory))
			}
			if wantErr == nil && rn.Bus.Mem[rn.CPU.PC] != 0x76 {
				return viol("halt-pc", "%s: Run returned nil but PC=%04x does not address a HALT opcode", what, rn.CPU.PC)
			}
			// re-running a parked CPU: one Step, everything but R unchanged
			if parked && slotBefore == nil && len(tw.Presented) == nPres && tw.QueueLen() == 0 && wantErr == nil {
				if d := world.DiffStates(before, rn.CPU.States, true); d != "" {
					return viol("rerun-halted", "%s: Run on a halted CPU changed registers:%s", what, d)
				}
				if memBefore != rn.Bus.Mem {
					return viol("rerun-halted", "%s: Run on a halted CPU changed memory", what)
				}
				env.Fire("rerun-on-halted-cpu")
			}
			parked = wantErr == nil
			if wantErr != nil {
				env.Fire("stopped-at-breakpoint")
				if haltExec {
					env.Fire("breakpoint-wins-over-HALT")
				}
			} else {
				env.Fire("stopped-at-HALT")
			}
			if steps == 1 {
				env.Fire("single-step-run")
			}
			env.Class("%s/%s/steps%s", sc.Family, errName(wantErr), map[bool]string{true: "=1", false: ">1"}[steps == 1])
		}
		// after every op the two worlds must agree completely
		if d := world.DiffStates(tw.CPU.States, rn.CPU.States, false); d != "" {
			return viol("twin-state", "%s: registers differ (Step-driven!=Run-driven):%s", what, d)
		}
		if tw.Bus.Mem != rn.Bus.Mem {
			for a := 0; a < 65536; a++ {
				if tw.Bus.Mem[a] != rn.Bus.Mem[a] {
					return viol("twin-memory", "%s: memory[%04x] Step-driven=%02x Run-driven=%02x", what, a, tw.Bus.Mem[a], rn.Bus.Mem[a])
				}
			}
		}
		if len(tw.Bus.PortLog) != len(rn.Bus.PortLog) {
			return viol("twin-port-log", "%s: %d vs %d port accesses", what, len(tw.Bus.PortLog), len(rn.Bus.PortLog))
		}
		for k := range tw.Bus.PortLog {
			if tw.Bus.PortLog[k] != rn.Bus.PortLog[k] {
				return viol("twin-port-log", "%s: port access #%d %s vs %s", what, k, tw.Bus.PortLog[k], rn.Bus.PortLog[k])
			}
		}
		if !world.SameRequest(tw.CPU.Interrupt, rn.CPU.Interrupt) {
			return viol("twin-pending", "%s: pending request %s vs %s", what, world.FmtRequest(tw.CPU.Interrupt), world.FmtRequest(rn.CPU.Interrupt))
		}
		if tw.Mutated != "" || rn.Mutated != "" {
			return viol("request-value-modified", "%s: %s%s", what, tw.Mutated, rn.Mutated)
		}
		if tw.StaleCount() != 0 || rn.StaleCount() != 0 {
			return viol("stale-device", "%s: %d/%d accesses went through Memory/IO values the host had replaced", what, tw.StaleCount(), rn.StaleCount())
		}
		if tw.Cnt.RETI != rn.Cnt.RETI || tw.Cnt.RETN != rn.Cnt.RETN {
			return viol("twin-notifications", "%s: RETI/RETN notifications %d/%d vs %d/%d", what, tw.Cnt.RETI, tw.Cnt.RETN, rn.Cnt.RETI, rn.Cnt.RETN)
		}
	}
	env.Ticks += tw.Bus.Tick
	if tw.Accepted > 0 {
		env.FireN("interrupt-accepted-during-run", uint64(tw.Accepted))
	}
	for k, v := range tw.Raised {
		env.FireN("raised/"+k, uint64(v))
	}
	env.NonTrivial = tw.Accepted > 0 || len(sc.BP) > 0 || len(sc.Host) > 3
	return nil
}

func (c08) Shrink(sci interface{}, _ *Violation) []interface{} {
	p := c08{}
	sc := sci.(*C08Sc)
	var out []interface{}
	for i := range sc.Host {
		n := Clone(p, sc).(*C08Sc)
		n.Host = append(n.Host[:i], n.Host[i+1:]...)
		out = append(out, n)
	}
	for i := range sc.Events {
		n := Clone(p, sc).(*C08Sc)
		n.Events = append(n.Events[:i], n.Events[i+1:]...)
		for j := range n.Host {
			if n.Host[j].Op == "raise" && n.Host[j].N >= i {
				n.Host[j].N = 99
			}
		}
		out = append(out, n)
	}
	for i := range sc.BP {
		n := Clone(p, sc).(*C08Sc)
		n.BP = append(n.BP[:i], n.BP[i+1:]...)
		out = append(out, n)
	}
	for i := range sc.BPEdits {
		n := Clone(p, sc).(*C08Sc)
		n.BPEdits = append(n.BPEdits[:i], n.BPEdits[i+1:]...)
		out = append(out, n)
	}
	for ci := range sc.Prog.Code {
		for ii := len(sc.Prog.Code[ci].Ins) - 1; ii >= 0; ii-- {
			s := sc.Prog.Code[ci].Ins[ii]
			nop := gen.NopIns(s)
			if s == nop || s == "76" || (ci > 0 && s == "c9") {
				continue
			}
			n := Clone(p, sc).(*C08Sc)
			n.Prog.Code[ci].Ins[ii] = nop
			out = append(out, n)
		}
	}
	for i := range sc.Events {
		if sc.Events[i].AtTick > 1 {
			n := Clone(p, sc).(*C08Sc)
			n.Events[i].AtTick /= 2
			out = append(out, n)
			n = Clone(p, sc).(*C08Sc)
			n.Events[i].AtTick--
			out = append(out, n)
		}
	}
	if len(sc.Prog.Data) > 0 {
		n := Clone(p, sc).(*C08Sc)
		n.Prog.Data = nil
		out = append(out, n)
	}
	return out
}
