package props

import (
	"context"
	"encoding/hex"
	"fmt"
	"strings"

	"github.com/koron-go/z80"
	"github.com/koron-go/z80/verifsim/gen"
	"github.com/koron-go/z80/verifsim/world"
)

// C07 — an interrupt at any instruction boundary is transparent to the
// running program. Twin worlds: the same program with and without the
// request; every injection point of each sampled program is enumerated.

// C07Sc is a C07 scenario.
type C07Sc struct {
	Mode     string        `json:"mode"` // enumerate | schedule
	Prog     gen.Prog      `json:"prog"`
	Handlers []gen.CodeSeg `json:"handlers"`
	Table    []world.Seg   `json:"table"`   // mode-2 vector table
	Counter  uint16        `json:"counter"` // cell every handler increments
	Pushes   int           `json:"pushes"`  // 16-bit pushes of the deepest handler
	HSteps   int           `json:"hsteps"`  // Steps of the longest handler incl. acceptance
	IOSeed   uint64        `json:"io_seed"`
	// NilHandlers: the host registers no RETN/RETI notification handlers (nil interface values)
	NilHandlers bool `json:"nil_handlers,omitempty"`
	// Swap: host replaces cpu.Memory/cpu.IO by equal-content devices before every Step (1) or copies the CPU struct too (2)
	Swap int `json:"swap,omitempty"`
	// Dumb: the program runs directly on the library's DumbMemory (full size) instead of the recording
	// device; ports stay on the recording device. Boundary-placed events only.
	Dumb bool `json:"dumb,omitempty"`
	// enumerate: every boundary x each of Kinds. schedule: exactly Events.
	Kinds  []world.Event `json:"kinds,omitempty"`
	Events []world.Event `json:"events,omitempty"`
}

type c07 struct{}

func init() { Register(c07{}) }

func (c07) ID() string       { return "C07" }
func (c07) New() interface{} { return &C07Sc{} }

const (
	c07Counter = 0x9000
	c07HBase   = 0x4000
	c07Table   = 0x5000
	c07MaxN    = 600
)

// c07Handler builds a register-transparent handler body.
func c07Handler(r *world.Rng, nmi bool) (ins []string, pushes int) {
	e := func(bs ...uint8) { ins = append(ins, hex.EncodeToString(bs)) }
	type sv struct{ push, pop, clob []uint8 }
	opt := []sv{
		{[]uint8{0xc5}, []uint8{0xc1}, []uint8{0x01, r.Byte(), r.Byte()}},
		{[]uint8{0xd5}, []uint8{0xd1}, []uint8{0x11, r.Byte(), r.Byte()}},
		{[]uint8{0xdd, 0xe5}, []uint8{0xdd, 0xe1}, []uint8{0xdd, 0x21, r.Byte(), r.Byte()}},
		{[]uint8{0xfd, 0xe5}, []uint8{0xfd, 0xe1}, []uint8{0xfd, 0x21, r.Byte(), r.Byte()}},
	}
	var used []sv
	for _, o := range opt {
		if r.Chance(1, 3) {
			used = append(used, o)
		}
	}
	e(0xf5) // PUSH AF
	e(0xe5) // PUSH HL
	for _, u := range used {
		e(u.push...)
	}
	e(0x21, uint8(c07Counter&0xff), uint8(c07Counter>>8))
	e(0x34) // INC (HL)
	e(0x3e, r.Byte())
	e(0xc6, r.Byte()) // ADD A,n : clobbers A and every flag
	e(0x21, r.Byte(), r.Byte())
	for _, u := range used {
		e(u.clob...)
	}
	if r.Chance(1, 3) {
		e(0x37) // SCF
	}
	for i := len(used) - 1; i >= 0; i-- {
		e(used[i].pop...)
	}
	e(0xe1)
	e(0xf1)
	if nmi {
		e(0xed, 0x45)
	} else {
		e(0xfb)
		if r.Chance(1, 3) {
			e(0xed, 0x45) // "returns with EI; RETI (or RETN)"
		} else {
			e(0xed, 0x4d)
		}
	}
	return ins, 2 + len(used)
}

// handlerSet is the interrupt side of a structured-program world.
type handlerSet struct {
	Handlers []gen.CodeSeg
	Table    []world.Seg
	Kinds    []world.Event // NMI first, then the maskable kinds valid in this mode
	Pushes   int
	HSteps   int
}

// genHandlers builds transparent handlers behind JP pads in the low page
// (RST targets, 0x0066), a mode-2 target with its table entry and a mode-0
// CALL target.
func genHandlers(r *world.Rng, mode int) handlerSet { return genHandlersAt(r, mode, 0) }

// genHandlersAt: callAt != 0 places the mode-0 CALL target at that address
// (e.g. right behind the program's final HALT, so that an acceptance while
// parked lands directly in front of its own service routine).
func genHandlersAt(r *world.Rng, mode int, callAt uint16) handlerSet {
	var hs handlerSet
	haddr := uint16(c07HBase)
	place := func(pad uint16, nmi bool) {
		ins, pushes := c07Handler(r, nmi)
		if pushes > hs.Pushes {
			hs.Pushes = pushes
		}
		if len(ins)+2 > hs.HSteps {
			hs.HSteps = len(ins) + 2 // + acceptance Step + the JP pad
		}
		hs.Handlers = append(hs.Handlers, gen.CodeSeg{Addr: haddr, Ins: ins})
		if pad != 0xffff {
			hs.Handlers = append(hs.Handlers, gen.CodeSeg{Addr: pad, Ins: []string{hex.EncodeToString([]uint8{0xc3, uint8(haddr), uint8(haddr >> 8)})}})
		}
		haddr += 0x80
	}
	for t := 0; t < 8; t++ {
		place(uint16(t*8), false)
	}
	place(0x0066, true)
	t2 := haddr
	place(0xffff, false)
	tc := haddr
	if callAt != 0 {
		haddr, tc = callAt, callAt
	}
	place(0xffff, false)
	vec := uint8(r.Intn(128) * 2)
	hs.Table = []world.Seg{world.MkSeg(uint16(c07Table)|uint16(vec), []uint8{uint8(t2), uint8(t2 >> 8)})}
	hs.Kinds = []world.Event{{Kind: world.EvNMI}}
	switch mode {
	case 0:
		hs.Kinds = append(hs.Kinds, world.Event{Kind: world.EvINT, Data: hex.EncodeToString([]uint8{0xc7 | uint8(r.Intn(8))<<3})})
		hs.Kinds = append(hs.Kinds, world.Event{Kind: world.EvINT, Data: hex.EncodeToString([]uint8{0xcd, uint8(tc), uint8(tc >> 8)})})
	case 1:
		hs.Kinds = append(hs.Kinds, world.Event{Kind: world.EvINT, Data: ""})
	case 2:
		hs.Kinds = append(hs.Kinds, world.Event{Kind: world.EvINT, Data: hex.EncodeToString([]uint8{vec})})
	}
	return hs
}

func (c07) Gen(r *world.Rng, tier string, n int) interface{} {
	sc := &C07Sc{Counter: c07Counter, IOSeed: r.U64()}
	blocks := r.Range(3, 14)
	if tier == "thorough" && r.Chance(1, 3) {
		blocks = r.Range(10, 30)
	}
	o := gen.Opts{Transparent: true, IO: r.Chance(2, 3), Blocks: blocks, MaxSubs: 3, EI: true, StartEI: r.Chance(4, 5)}
	if n%8 == 6 {
		// the stack wraps: frames pushed at top level, in subroutines or in PUSH sections straddle
		// 0x0000/0xFFFF (the words of an acceptance are stored at 0xFFFF and 0x0000)
		o.StackTop = uint16(r.Pick(1, 1, 2, 3, 5))
	}
	var p *gen.Prog
	for try := 0; ; try++ {
		p = gen.Structured(r, o)
		// accept only programs whose undisturbed run is short enough
		m, _ := world.NewMachine(p.Regs, p.Segs(), sc.IOSeed, nil)
		ok := false
		for i := 0; i < c07MaxN; i++ {
			if m.Step().Halted {
				ok = true
				break
			}
		}
		if ok || try > 20 {
			break
		}
		o.Blocks = o.Blocks/2 + 1
	}
	mode := r.Intn(3)
	p.Regs.IM = mode
	p.Regs.I = uint8(c07Table >> 8)
	if r.Chance(1, 4) { // start with interrupts already enabled
		p.Regs.IFF1, p.Regs.IFF2 = true, true
	}
	sc.Prog = *p

	callAt := uint16(0)
	if mode == 0 && r.Chance(1, 3) {
		callAt = p.HaltAddr + 3 // CALL nn (3 bytes) accepted while parked on HALT: PC+len == nn
	}
	hs := genHandlersAt(r, mode, callAt)
	sc.Handlers, sc.Table, sc.Pushes, sc.HSteps = hs.Handlers, hs.Table, hs.Pushes, hs.HSteps
	kinds := hs.Kinds
	sc.NilHandlers = r.Chance(1, 4)
	if r.Chance(1, 12) {
		sc.Swap = r.Range(1, 2)
	} else if r.Chance(1, 8) {
		sc.Dumb = true
	}
	if o.StackTop != 0 {
		// the wrapped stack runs over the JP pad of RST 00h at 0x0000: that vector is not used here
		for i := range kinds {
			if kinds[i].Data == "c7" {
				kinds[i].Data = "ff"
			}
		}
		if sc.Swap == 0 {
			sc.Dumb = r.Bool()
		}
	}
	if n%4 != 3 {
		sc.Mode = "enumerate"
		sc.Kinds = kinds
		return sc
	}
	sc.Mode = "schedule"
	ne := r.Range(2, 3)
	haveNMI := false
	for i := 0; i < ne; i++ {
		ev := kinds[r.Intn(len(kinds))]
		// one NMI at most: an NMI inside an NMI handler overwrites the saved
		// IFF2 on a real Z80 as well, so it is not transparent by definition
		if ev.Kind == world.EvNMI && haveNMI {
			ev = kinds[1+r.Intn(len(kinds)-1)]
		}
		haveNMI = haveNMI || ev.Kind == world.EvNMI
		switch x := r.Intn(8); {
		case x < 2 && !sc.Dumb:
			ev.AtTick = uint64(r.Range(1, 1500))
		case x == 2 && i > 0 && !sc.NilHandlers:
			ev.OnRet = true // daisy chain: raised from inside the RETI/RETN notification of an earlier handler
		default:
			ev.Boundary = r.Intn(c07MaxN/2 + 1)
		}
		sc.Events = append(sc.Events, ev)
	}
	// bias: second request lands inside the first one's handler
	if r.Chance(1, 2) && sc.Events[0].AtTick == 0 && sc.Events[1].AtTick == 0 && !sc.Events[1].OnRet {
		sc.Events[1].Boundary = sc.Events[0].Boundary + r.Range(1, sc.HSteps)
	}
	return sc
}

type c07Final struct {
	st     z80.States
	halt   bool
	mem    *[65536]uint8
	ports  []world.Acc
	steps  int
	accSP  []uint16
	nAcc   int
	slot   *z80.Interrupt
	ticks  uint64
	landed []string
	retn   int // RETN notifications seen
}

// c07Run executes the program with the given events until it is parked on its
// final HALT with nothing left to serve, or the Step budget is exhausted.
func c07Run(sc *C07Sc, evs []world.Event, budget int, env *Env) (*c07Final, *Violation) {
	segs := sc.Prog.Segs()
	for _, h := range sc.Handlers {
		segs = append(segs, h.Seg())
	}
	segs = append(segs, sc.Table...)
	m, err := world.NewMachine(sc.Prog.Regs, segs, sc.IOSeed, evs)
	if err != nil {
		return nil, viol("harness", "bad scenario: %v", err)
	}
	m.Bus.KeepPorts = true
	if sc.NilHandlers {
		m.CPU.RETNHandler, m.CPU.RETIHandler = nil, nil
	}
	if len(evs) > 0 {
		m.SwapMode = sc.Swap // the undisturbed reference run keeps its devices
	}
	var dm z80.DumbMemory
	if sc.Dumb {
		dm = make(z80.DumbMemory, 65536)
		copy(dm, m.Bus.Mem[:])
		m.CPU.Memory = dm
	}
	peek := func(a uint16) uint8 {
		if dm != nil {
			return dm[a]
		}
		return m.Bus.Mem[a]
	}
	poke := func(a uint16, v uint8) {
		if dm != nil {
			dm[a] = v
			return
		}
		m.Bus.Mem[a] = v
	}
	f := &c07Final{}
	for {
		if m.Steps >= budget {
			return nil, viol("liveness", "not parked on the final HALT at %04x after %d Steps (PC=%04x, slot=%s, accepted=%d)", sc.Prog.HaltAddr, m.Steps, m.CPU.PC, world.FmtRequest(m.CPU.Interrupt), m.Accepted)
		}
		si := m.Step()
		if dm != nil {
			// no memory history on the bare library type: parked = the Step left PC on the program's HALT opcode
			si.Halted = !si.Accepted && si.Before.PC == sc.Prog.HaltAddr && m.CPU.PC == sc.Prog.HaltAddr && dm[m.CPU.PC] == 0x76
		}
		if si.Accepted {
			cls := "running"
			if si.Before.PC == sc.Prog.HaltAddr && peek(si.Before.PC) == 0x76 {
				cls = "parked-on-HALT"
			} else if op := peek(si.Before.PC); op == 0xed && peek(si.Before.PC+1)&0xf4 == 0xb0 {
				cls = "inside-block-repeat"
			} else if si.Before.PC >= c07HBase && si.Before.PC < c07HBase+0x1000 || si.Before.PC < 0x100 {
				cls = "inside-handler(nested)"
			} else if peek(si.Before.PC-1) == 0xfb {
				cls = "right-after-EI"
			} else if !si.Before.IFF1 {
				cls = "inside-DI-section"
			} else if si.Before.PC >= gen.SubBase && si.Before.PC < c07HBase {
				cls = "inside-subroutine"
			} else if op := peek(si.Before.PC); op == 0x10 || op == 0xc1 {
				cls = "inside-DJNZ-loop"
			}
			kind := "NMI"
			if si.Req.Type != z80.NMIType {
				kind = fmt.Sprintf("INT-im%d-len%d", si.Before.IM, len(si.Req.Data))
			}
			f.landed = append(f.landed, kind+"/"+cls)
			// mode 0: the resume address handed to the handler
			if si.Req.Type != z80.NMIType && si.Before.IM == 0 {
				sp := m.CPU.SP
				pushed := uint16(peek(sp)) | uint16(peek(sp+1))<<8
				off := pushed - si.Before.PC
				switch {
				case off == 0:
				case int(off) == len(si.Req.Data):
					env.KnownFinding("im0-resume-offset-eq-len", fmt.Sprintf("PC=%04x data=%x pushed=%04x", si.Before.PC, si.Req.Data, pushed))
					// repair the two stack bytes as the environment and go on
					poke(sp, uint8(si.Before.PC))
					poke(sp+1, uint8(si.Before.PC>>8))
				default:
					return nil, viol("im0-resume-address", "mode-0 acceptance at PC=%04x with data %x pushed %04x (offset %d is neither 0 nor len(data))", si.Before.PC, si.Req.Data, pushed, int16(off))
				}
			}
		}
		if si.Halted && m.CPU.PC == sc.Prog.HaltAddr && m.Quiescent() {
			break
		}
	}
	if m.Mutated != "" {
		return nil, viol("request-value-modified", "%s", m.Mutated)
	}
	if m.StaleCount() != 0 {
		return nil, viol("stale-device", "%d accesses went to a Memory/IO value the host had already replaced", m.StaleCount())
	}
	// an NMI is always accepted: none of the raised ones may be lost
	nmiRaised, nmiAcc := 0, 0
	for k, v := range m.Raised {
		if strings.HasSuffix(k, "/"+world.EvNMI) {
			nmiRaised += v
		}
	}
	for _, k := range m.AccKinds {
		if k == world.EvNMI {
			nmiAcc++
		}
	}
	if nmiAcc != nmiRaised {
		return nil, viol("nmi-lost", "%d NMI requests were raised, %d accepted by the time the program was parked with nothing pending", nmiRaised, nmiAcc)
	}
	if dm != nil {
		copy(m.Bus.Mem[:], dm)
	}
	f.st, f.halt, f.mem, f.ports, f.steps = m.CPU.States, m.CPU.HALT, &m.Bus.Mem, m.Bus.PortLog, m.Steps
	f.accSP, f.nAcc, f.slot, f.ticks = m.AccSP, m.Accepted, m.CPU.Interrupt, m.Bus.Tick
	f.retn = m.Cnt.RETN // (0 in the variants without notification handlers)
	if !env.Quiet {
		env.Steps += uint64(m.Steps)
		env.Ticks += m.Bus.Tick
	}
	return f, nil
}

func c07Compare(sc *C07Sc, base, got *c07Final, nEvents int, what string) *Violation {
	a, b := base.st, got.st
	// (R is not compared at all, bit 7 included: how an implementation represents the refresh register in
	// States is its own business - seventh informed review; what LD A,R would read is C14's subject)
	if d := world.DiffStates(a, b, true); d != "" {
		return viol("twin-final-state", "%s: final registers differ from the undisturbed run (undisturbed!=interrupted):%s", what, d)
	}
	if base.halt != got.halt {
		return viol("twin-final-state", "%s: halted indication differs", what)
	}
	cnt := got.mem[sc.Counter] - base.mem[sc.Counter]
	if int(cnt) != got.nAcc&0xff {
		return viol("handler-count", "%s: handlers ran %d times for %d accepted requests", what, cnt, got.nAcc)
	}
	frame := uint16(nEvents * (2 + 2*sc.Pushes))
	excluded := func(addr uint16) bool {
		if addr == sc.Counter {
			return true
		}
		if a.SP-addr-1 < 0x1000 { // [SP-0x1000, SP)
			return true
		}
		for _, sp := range got.accSP {
			if sp-addr-1 < frame { // [sp-frame, sp)
				return true
			}
		}
		return false
	}
	for i := 0; i < 65536; i++ {
		if base.mem[i] != got.mem[i] && !excluded(uint16(i)) {
			return viol("twin-final-memory", "%s: memory[%04x]=%02x, undisturbed run has %02x (SP=%04x, acceptances at SP=%04x)", what, i, got.mem[i], base.mem[i], a.SP, got.accSP)
		}
	}
	if len(base.ports) != len(got.ports) {
		return viol("twin-port-log", "%s: %d port accesses, undisturbed run has %d", what, len(got.ports), len(base.ports))
	}
	for i := range base.ports {
		if base.ports[i] != got.ports[i] {
			return viol("twin-port-log", "%s: port access #%d is %s, undisturbed run has %s", what, i, got.ports[i], base.ports[i])
		}
	}
	return nil
}

func fmtEvents(evs []world.Event) string {
	s := ""
	for _, e := range evs {
		at := fmt.Sprintf("boundary %d", e.Boundary)
		if e.AtTick != 0 {
			at = fmt.Sprintf("tick %d", e.AtTick)
		} else if e.OnRet {
			at = "next RETI/RETN"
		}
		s += fmt.Sprintf("[%s %s @ %s]", e.Kind, e.Data, at)
	}
	return s
}

func (c07) Exec(sci interface{}, env *Env) *Violation {
	sc := sci.(*C07Sc)
	base, v := c07Run(sc, nil, c07MaxN+2, env)
	if v != nil {
		if v.Oracle == "liveness" {
			// the generated program itself is longer than the enumeration budget: not a case
			env.Class("skipped/program-longer-than-%d-steps", c07MaxN)
			return nil
		}
		return v
	}
	n := base.steps // boundaries 0..n ; boundary n = parked on the executed HALT
	one := func(evs0 []world.Event) *Violation {
		evs := append([]world.Event(nil), evs0...)
		for i := range evs {
			if evs[i].AtTick == 0 && evs[i].Boundary > n {
				evs[i].Boundary = n // parked on the final HALT
			}
		}
		budget := n + len(evs)*(sc.HSteps+1)*2 + 2
		got, v := c07Run(sc, evs, budget, env)
		what := fmtEvents(evs)
		if v != nil {
			v.Detail = what + ": " + v.Detail
			v.Hint = evs
			return v
		}
		if got.nAcc == 0 && got.slot == nil {
			// tick placed after the end of the program: nothing happened
			if !env.Quiet {
				env.Class("never-raised")
			}
		}
		if got.nAcc == 0 && len(evs) > 0 && got.slot != nil {
			if !world.SameRequest(got.slot, evs[0].Request()) && len(evs) == 1 {
				return &Violation{Oracle: "refused-stays-pending", Detail: what + ": a request that is never accepted must stay pending unchanged", Hint: evs}
			}
			env.Fire("never-accepted(stays pending)")
		}
		if v := c07Compare(sc, base, got, len(evs), what); v != nil {
			v.Hint = evs
			return v
		}
		if got.nAcc > 0 {
			env.NonTrivial = true
			env.NTPoints++
			for _, sp := range got.accSP {
				if sp == 1 {
					env.Fire("acceptance-word-straddles-ffff-0000")
				}
			}
			for _, l := range got.landed {
				env.Fire("accepted/" + l)
				env.Class("%s", l)
				if got.retn > 0 && !strings.HasPrefix(l, "NMI") {
					env.Fire("maskable-handler-left-through-RETN")
				}
			}
		}
		return nil
	}
	if sc.Mode == "schedule" {
		return one(sc.Events)
	}
	first := true
	for _, kind := range sc.Kinds {
		for k := 0; k <= n; k++ {
			ev := kind
			ev.Boundary = k
			if !first {
				env.ExtraEvals++
			}
			first = false
			if v := one([]world.Event{ev}); v != nil {
				return v
			}
		}
	}
	if !sc.Dumb && base.ticks > 0 {
		// ... and from inside the opcode fetch of the final HALT itself (first execution, and the next one
		// while parked): the request is there before the HALT has finished executing
		for _, kind := range sc.Kinds {
			for _, t := range []uint64{base.ticks, base.ticks + 1} {
				ev := kind
				ev.AtTick = t
				env.ExtraEvals++
				if v := one([]world.Event{ev}); v != nil {
					return v
				}
			}
		}
	}
	return c07RunDriven(sc, env, base)
}

// c07RunDriven is the host that never calls Step: Run to the final HALT, then - for every kind of
// request - raise it while the CPU is parked and call Run again (three times). The request must be
// served by exactly one handler execution if it is acceptable (NMI, or IFF1 set), must stay pending
// otherwise, and the machine must be parked on the same HALT with the same registers and memory.
// Mode-0 requests are left out (known finding D4: their return address cannot be repaired inside Run).
func c07RunDriven(sc *C07Sc, env *Env, base *c07Final) *Violation {
	if sc.Dumb || sc.Swap != 0 {
		return nil
	}
	segs := sc.Prog.Segs()
	for _, h := range sc.Handlers {
		segs = append(segs, h.Seg())
	}
	segs = append(segs, sc.Table...)
	m, err := world.NewMachine(sc.Prog.Regs, segs, sc.IOSeed, nil)
	if err != nil {
		return viol("harness", "bad scenario: %v", err)
	}
	if sc.NilHandlers {
		m.CPU.RETNHandler, m.CPU.RETIHandler = nil, nil
	}
	var budget uint64
	m.Hook = func(m *world.Machine, a world.Acc) {
		if budget != 0 && m.Bus.Tick > budget {
			budget = 0
			panic(&overrun{m.Bus.Tick})
		}
	}
	cpu := m.CPU
	ctx := context.Background()
	run := func(what string) *Violation {
		budget = m.Bus.Tick + 400000
		err, over := safeRun(cpu, ctx)
		budget = 0
		if over != nil {
			return viol("run-driven", "%s: Run was still executing after 400000 accesses", what)
		}
		if err != nil || cpu.PC != sc.Prog.HaltAddr || m.Bus.Mem[cpu.PC] != 0x76 {
			return viol("run-driven", "%s: Run returned %v at PC=%04x; the program parks on its HALT at %04x", what, err, cpu.PC, sc.Prog.HaltAddr)
		}
		return nil
	}
	if v := run("host that only calls Run, first call"); v != nil {
		if v.Oracle == "run-driven" && strings.Contains(v.Detail, "still executing") {
			return nil // a program that needs more than the budget undisturbed: not this pass
		}
		return v
	}
	for _, kind := range sc.Kinds {
		if kind.Kind == world.EvINT && sc.Prog.Regs.IM == 0 {
			continue
		}
		before := cpu.States
		mem := m.Bus.Mem
		req := kind.Request()
		acceptable := kind.Kind == world.EvNMI || before.IFF1
		cpu.Interrupt = req
		what := fmt.Sprintf("host that only calls Run: %s raised while parked on the final HALT (IFF1=%t), then Run x3", world.FmtRequest(req), before.IFF1)
		for i := 0; i < 3; i++ {
			if v := run(what); v != nil {
				return v
			}
		}
		if d := world.DiffStates(before, cpu.States, true); d != "" {
			return viol("run-driven", "%s: registers differ from before the request (before!=after):%s", what, d)
		}
		cnt := int(m.Bus.Mem[sc.Counter] - mem[sc.Counter])
		switch {
		case acceptable && (cnt != 1 || cpu.Interrupt != nil):
			return viol("run-driven", "%s: the handler ran %d times (want 1), slot now holds %s", what, cnt, world.FmtRequest(cpu.Interrupt))
		case !acceptable && (cnt != 0 || !world.SameRequest(cpu.Interrupt, req)):
			return viol("run-driven", "%s: a refused request must stay pending and nothing may run: handler ran %d times, slot now holds %s", what, cnt, world.FmtRequest(cpu.Interrupt))
		}
		for a := 0; a < 65536; a++ {
			if m.Bus.Mem[a] != mem[a] && uint16(a) != sc.Counter && before.SP-uint16(a)-1 >= 0x1000 {
				return viol("run-driven", "%s: memory[%04x]=%02x, was %02x", what, a, m.Bus.Mem[a], mem[a])
			}
		}
		cpu.Interrupt = nil
		env.Fire("run-driven/raised-while-parked/acceptable=" + fmt.Sprint(acceptable))
	}
	env.Ticks += m.Bus.Tick
	// ... and a request that a device raises from inside the opcode fetch of the final HALT, while Run is
	// executing: every Run that returns nil has the CPU parked on the HALT (never inside the handler), and
	// after three Runs the handler has run once if the request was acceptable
	for _, kind := range sc.Kinds {
		if kind.Kind == world.EvINT && sc.Prog.Regs.IM == 0 {
			continue
		}
		ev := kind
		ev.AtTick = base.ticks
		m2, err := world.NewMachine(sc.Prog.Regs, segs, sc.IOSeed, []world.Event{ev})
		if err != nil {
			return viol("harness", "bad scenario: %v", err)
		}
		if sc.NilHandlers {
			m2.CPU.RETNHandler, m2.CPU.RETIHandler = nil, nil
		}
		m2.Hook = m.Hook
		m, cpu = m2, m2.CPU
		what := fmt.Sprintf("host that only calls Run: %s raised by a device during the fetch of the final HALT (tick %d), Run x3", world.FmtRequest(kind.Request()), base.ticks)
		for i := 0; i < 3; i++ {
			if v := run(what); v != nil {
				if strings.Contains(v.Detail, "still executing") {
					return nil
				}
				return v
			}
		}
		acceptable := kind.Kind == world.EvNMI || cpu.IFF1 || m.Accepted > 0
		cnt := int(m.Bus.Mem[sc.Counter] - base.mem[sc.Counter])
		if d := world.DiffStates(base.st, cpu.States, true); d != "" {
			return viol("run-driven", "%s: registers differ from the undisturbed run (undisturbed!=interrupted):%s", what, d)
		}
		if acceptable && cnt != 1 {
			return viol("run-driven", "%s: the handler ran %d times (want 1), slot now holds %s", what, cnt, world.FmtRequest(cpu.Interrupt))
		}
		env.Fire("run-driven/raised-during-the-halt-fetch")
	}
	return nil
}

func (c07) Shrink(sci interface{}, v *Violation) []interface{} {
	p := c07{}
	sc := sci.(*C07Sc)
	var out []interface{}
	if sc.Mode == "enumerate" {
		if evs, ok := v.Hint.([]world.Event); ok {
			n := Clone(p, sc).(*C07Sc)
			n.Mode, n.Kinds, n.Events = "schedule", nil, evs
			out = append(out, n)
		}
		return out
	}
	if len(sc.Events) > 1 {
		for i := range sc.Events {
			n := Clone(p, sc).(*C07Sc)
			n.Events = append(n.Events[:i], n.Events[i+1:]...)
			out = append(out, n)
		}
	}
	// NOP out instructions of the program, last first (keeps addresses valid)
	for ci := range sc.Prog.Code {
		for ii := len(sc.Prog.Code[ci].Ins) - 1; ii >= 0; ii-- {
			s := sc.Prog.Code[ci].Ins[ii]
			nop := gen.NopIns(s)
			if s == nop || s == "76" || (ci > 0 && s == "c9") {
				continue
			}
			n := Clone(p, sc).(*C07Sc)
			n.Prog.Code[ci].Ins[ii] = nop
			out = append(out, n)
		}
	}
	for i := range sc.Events {
		if sc.Events[i].Boundary > 0 {
			n := Clone(p, sc).(*C07Sc)
			n.Events[i].Boundary--
			out = append(out, n)
		}
	}
	if len(sc.Prog.Data) > 0 {
		n := Clone(p, sc).(*C07Sc)
		n.Prog.Data = nil
		out = append(out, n)
	}
	z := sc.Prog.Regs
	z.AF, z.BC, z.DE, z.HL, z.AF2, z.BC2, z.DE2, z.HL2, z.IX, z.IY, z.R = 0, 0, 0, 0, 0, 0, 0, 0, 0, 0, 0
	if z != sc.Prog.Regs {
		n := Clone(p, sc).(*C07Sc)
		n.Prog.Regs = z
		out = append(out, n)
	}
	return out
}
