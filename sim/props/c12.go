package props

import (
	"context"
	"encoding/hex"
	"fmt"
	"strings"
	"time"

	"github.com/koron-go/z80"
	"github.com/koron-go/z80/verifsim/world"
)

// C12 — Step and Run are total. Fault injection on the environment: hostile
// byte strings as programs, arbitrary register files (any IM), the library's
// own short DumbMemory / sparse MapMemory / short DumbIO / no IO at all, and
// malformed interrupt requests raised at arbitrary boundaries and accesses.
// After an environment fault only totality is demanded; the one functional
// clause (unsupported opcodes are consumed) is checked on the bus history of
// Steps that logged the implementation's invalid-code warning.

// C12Ev is a request raised by the hostile environment.
type C12Ev struct {
	AtStep  int    `json:"at_step"`           // before this Step (when AtTick==0)
	AtTick  uint64 `json:"at_tick,omitempty"` // or from inside this access
	Type    int    `json:"type"`
	Data    string `json:"data,omitempty"`     // hex
	DataLen int    `json:"data_len,omitempty"` // >0: that many bytes of filler instead of Data
	NilData bool   `json:"nil_data,omitempty"`
	// Do: what the device callback does at AtTick besides / instead of raising the request:
	// "" raise; "reenter": call cpu.Step() on the running CPU from inside the callback (once);
	// "copystep": copy the CPU struct by value, give the copy its own small memory and Step the copy
	Do string `json:"do,omitempty"`
}

// C12Sc is a C12 scenario.
type C12Sc struct {
	MemKind string      `json:"mem_kind"` // full | dumb | map
	MemLen  int         `json:"mem_len"`
	MemSeed uint64      `json:"mem_seed"`
	Dense   int         `json:"dense"` // map: number of populated cells; others: prefix density percent
	Patch   []world.Seg `json:"patch"`
	IOKind  string      `json:"io_kind"` // nil | dumb | full
	IOLen   int         `json:"io_len"`
	Regs    world.Regs  `json:"regs"`
	IM      int64       `json:"im"`
	Steps   int         `json:"steps"`
	Events  []C12Ev     `json:"events"`
	UseRun  bool        `json:"use_run"`
	// Direct: the library's DumbMemory/MapMemory/DumbIO values are handed to the CPU
	// themselves, not behind the recording wrapper (type-specific fast paths only
	// exist for the real types); no bus history then, only totality.
	Direct bool `json:"direct,omitempty"`
	// Watch: a memory-mapped write-watch device - EVERY write into [WatchAt, WatchAt+0x100) stores a
	// fresh NMI request into cpu.Interrupt (also the writes of an acceptance's own pushes)
	Watch    bool   `json:"watch,omitempty"`
	WatchAt  uint16 `json:"watch_at,omitempty"`
	WatchAll bool   `json:"watch_all,omitempty"` // the window is the whole address space
	// Concurrent: further hostile worlds that run at the same time on their own goroutines
	Concurrent []C12Sc  `json:"concurrent,omitempty"`
	BP         []uint16 `json:"bp,omitempty"`
}

type c12 struct{}

func init() { Register(c12{}) }

func (c12) ID() string       { return "C12" }
func (c12) New() interface{} { return &C12Sc{} }

var hostileBytes = []uint8{0xdd, 0xfd, 0xed, 0xcb, 0x76, 0xdd, 0xfd, 0xed, 0xcb, 0xc7, 0xff, 0x00, 0xd3, 0xdb, 0xe3, 0xf9, 0x10, 0x18}

func (c12) Gen(r *world.Rng, tier string, n int) interface{} {
	sc := c12GenOne(r, tier, n)
	if n%16 == 5 || strings.HasSuffix(tier, "-race") {
		// (race side-car: every scenario; short-lived processes, so that whatever the library builds lazily
		// is built while several CPUs run)
		// independent hostile machines at the same time (nothing of the library may be shared between them)
		for k := r.Range(1, 3); k > 0; k-- {
			o := c12GenOne(r, tier, 0)
			o.UseRun, o.BP = false, nil
			for i := range o.Events {
				o.Events[i].Do = ""
			}
			o.Steps = r.Range(32, 200)
			sc.Concurrent = append(sc.Concurrent, *o)
		}
		sc.UseRun, sc.BP = false, nil
		sc.Steps = r.Range(32, 200)
	}
	return sc
}

func c12GenOne(r *world.Rng, tier string, n int) *C12Sc {
	sc := &C12Sc{MemSeed: r.U64(), Steps: r.Range(1, 64)}
	switch r.Intn(4) {
	case 0:
		sc.MemKind = "full"
	case 1, 2:
		sc.MemKind = "dumb"
		switch r.Intn(5) {
		case 0:
			sc.MemLen = r.Intn(4)
		case 1:
			sc.MemLen = 65535 - r.Intn(4)
		case 2:
			sc.MemLen = r.Range(1, 300)
		default:
			sc.MemLen = r.Intn(65536)
		}
	default:
		sc.MemKind = "map"
		sc.Dense = r.Pick(0, 1, 10, 200, 3000)
	}
	if sc.MemKind != "map" {
		sc.Dense = r.Pick(0, 10, 40, 80, 100, 100, 101, 102, 103, 104, 105, 106, 107, 108) // 100: nothing but prefix bytes; 101..104: one and the same prefix everywhere (DD, FD, DD/FD mixed, ED)
	}
	switch r.Intn(3) {
	case 0:
		sc.IOKind = "nil"
	case 1:
		sc.IOKind = "dumb"
		sc.IOLen = r.Pick(0, 1, 2, 128, 255, 256, r.Intn(256))
	default:
		sc.IOKind = "full"
	}
	regs := world.RandRegs(r)
	for _, pp := range []*uint16{&regs.HL, &regs.DE, &regs.BC, &regs.SP, &regs.IX, &regs.IY, &regs.PC} {
		if r.Chance(1, 2) {
			*pp = r.CornerU16()
		}
	}
	if r.Chance(1, 3) && sc.MemKind == "dumb" {
		regs.PC = uint16(sc.MemLen) - uint16(r.Intn(4)) // run off the end of a short memory
	}
	sc.Regs = regs
	sc.IM = int64(r.Pick(0, 1, 2, 0, 1, 2, 3, -1, 7, 255))
	if r.Chance(1, 20) {
		sc.IM = int64(1) << uint(r.Range(31, 40))
	}
	// a prefix chain cut off at the top of memory, or hostile bytes at PC
	if r.Chance(1, 2) {
		var b []uint8
		for i := r.Range(1, 12); i > 0; i-- {
			b = append(b, hostileBytes[r.Intn(len(hostileBytes))])
		}
		at := regs.PC
		if r.Chance(1, 3) {
			at = 0xffff - uint16(r.Intn(len(b)+1))
			sc.Regs.PC = at
		}
		sc.Patch = append(sc.Patch, world.MkSeg(at, b))
	}
	for i := r.Intn(4); i > 0; i-- {
		ev := C12Ev{AtStep: r.Intn(sc.Steps), Type: r.Pick(0, 1, 1, 1, 2, -1, 99)}
		if r.Chance(1, 3) {
			ev.AtTick = uint64(r.Range(1, 3*sc.Steps))
			if r.Chance(1, 4) {
				ev.Do = "copystep" // ("copykeep" - a snapshot that keeps whatever cpu.Memory is in the middle of a Step - is supported by the executor but not generated: it leans on what the library does with that field internally; "reenter" - a callback calling cpu.Step() on the running CPU - is supported by the executor but no longer generated: re-entrancy is not promised anywhere)
			}
		}
		switch r.Intn(9) {
		case 0:
			ev.NilData = true
		case 1:
			ev.Data = ""
		case 2:
			// long data: an instruction (often one that reads or writes memory) followed by filler
			ev.DataLen = r.Pick(5, 6, 8, 64, 300, 65536, 65537, 70000)
			if r.Chance(2, 3) {
				ev.Data = hex.EncodeToString([]uint8{[]uint8{0x7e, 0xe1, 0xc9, 0x86, 0x34, 0x36, 0xe3, 0x2a, 0x3a, 0xed, 0xdd, 0xfd, 0xcb}[r.Intn(13)], r.Byte(), r.Byte(), r.Byte()})
			} else {
				ev.Data = hex.EncodeToString(r.Bytes(r.Range(1, 4)))
			}
		case 3:
			ev.Data = hex.EncodeToString([]uint8{[]uint8{0xdd, 0xfd, 0xed, 0xcb}[r.Intn(4)]}) // prefix only
		case 4:
			ev.Data = hex.EncodeToString([]uint8{[]uint8{0x76, 0xd3, 0xdb, 0xed, 0x7e, 0x34, 0xe1}[r.Intn(7)], r.Byte()}) // HALT / I/O / memory access in mode 0
		case 5:
			ev.Data = hex.EncodeToString([]uint8{0xdd, 0xcb})
		case 6:
			// a control transfer that lands where it came from: JR/DJNZ/JR cc onto itself, JP to the scenario's
			// start PC (where a request raised at boundary 0 interrupts), JP (HL) / RET
			pc := sc.Regs.PC
			pool := [][]uint8{{0x18, 0xfe}, {0x10, 0xfe}, {0x20, 0xfe}, {0x28, 0xfe}, {0x30, 0xfe}, {0x38, 0xfe}, {0xc3, uint8(pc), uint8(pc >> 8)},
				{0xe9}, {0xc9}, {0xcd, uint8(pc), uint8(pc >> 8)}, {0xc7}, {0xdd, 0xe9}}
			ev.Data = hex.EncodeToString(pool[r.Intn(len(pool))])
			if r.Bool() {
				ev.AtTick, ev.AtStep, ev.Do = 0, 0, ""
			}
		default:
			ev.Data = hex.EncodeToString(r.Bytes(r.Range(1, 4)))
		}
		sc.Events = append(sc.Events, ev)
	}
	sc.Direct = r.Chance(1, 4)
	if !sc.Direct && r.Chance(1, 6) {
		sc.Watch = true
		sc.WatchAt = sc.Regs.SP - uint16(r.Intn(0x100)) // the stack grows into the watched window
		sc.WatchAll = r.Bool()
	}
	if r.Chance(1, 4) {
		sc.UseRun = true
		sc.Steps = r.Range(16, 400)
		for i := r.Intn(3); i > 0; i-- {
			sc.BP = append(sc.BP, r.U16())
		}
	}
	return sc
}

// recMem records the traffic to one of the library's own memory types.
type recMem struct {
	inner z80.Memory
	log   *[]world.Acc
	tick  *uint64
	on    func()
}

func (m recMem) Get(a uint16) uint8 {
	v := m.inner.Get(a)
	*m.log = append(*m.log, world.Acc{Kind: world.MR, Addr: a, Val: v})
	*m.tick++
	m.on()
	return v
}

func (m recMem) Set(a uint16, v uint8) {
	m.inner.Set(a, v)
	*m.log = append(*m.log, world.Acc{Kind: world.MW, Addr: a, Val: v})
	*m.tick++
	m.on()
}

type recIO struct {
	inner z80.IO
	log   *[]world.Acc
	tick  *uint64
	on    func()
}

func (i recIO) In(p uint8) uint8 {
	v := i.inner.In(p)
	*i.log = append(*i.log, world.Acc{Kind: world.PI, Addr: uint16(p), Val: v})
	*i.tick++
	i.on()
	return v
}

func (i recIO) Out(p uint8, v uint8) {
	i.inner.Out(p, v)
	*i.log = append(*i.log, world.Acc{Kind: world.PO, Addr: uint16(p), Val: v})
	*i.tick++
	i.on()
}

func (e C12Ev) request() *z80.Interrupt {
	q := &z80.Interrupt{Type: z80.InterruptType(e.Type)}
	switch {
	case e.NilData:
	case e.DataLen > 0:
		q.Data = make([]uint8, e.DataLen)
		for i := range q.Data {
			q.Data[i] = uint8(i*7 + 1)
		}
		p, _ := hex.DecodeString(e.Data)
		copy(q.Data, p)
	default:
		q.Data, _ = hex.DecodeString(e.Data)
		if q.Data == nil {
			q.Data = []uint8{}
		}
	}
	return q
}

type c12Stop struct{ why string }

// c12Watchdog is deliberately long: the only thing it must never do is fire on a healthy library
// under a loaded machine.
const c12Watchdog = 30 * time.Second

// c12World is one instance of the hostile environment around a real CPU.
type c12World struct {
	cpu      *z80.CPU
	log      []world.Acc
	tick     uint64
	fired    []bool
	cancel   context.CancelFunc
	cancelAt uint64
	hardStop uint64
	stopWhy  string

	kept       *z80.CPU
	inCallback bool
	reentered  bool // a nested Step ran inside the current one: its accesses are in the same log
}

func c12Build(sc *C12Sc, env *Env) *c12World {
	w := &c12World{fired: make([]bool, len(sc.Events))}
	// the library's own memory / port types, filled from the seed
	rr := world.NewRng(sc.MemSeed)
	fill := func(b []uint8) {
		for i := range b {
			switch sc.Dense {
			case 101:
				b[i] = 0xdd
				continue
			case 102:
				b[i] = 0xfd
				continue
			case 103:
				b[i] = []uint8{0xdd, 0xfd}[rr.Intn(2)]
				continue
			case 104:
				b[i] = 0xed
				continue
			case 107:
				b[i] = 0xfb // nothing but EI
				continue
			case 108:
				b[i] = uint8(sc.MemSeed) // one and the same byte everywhere, whichever
				continue
			case 105, 106:
				// a sled of two-byte codes, the second byte counting up: hundreds of DIFFERENT unsupported
				// op-codes in a row on one CPU (ED xx / DD xx)
				if i%2 == 0 {
					b[i] = map[int]uint8{105: 0xed, 106: 0xdd}[sc.Dense]
				} else {
					b[i] = uint8(i / 2)
				}
				continue
			}
			if sc.Dense >= 100 {
				b[i] = []uint8{0xdd, 0xfd, 0xed, 0xcb}[rr.Intn(4)]
				continue
			}
			if sc.Dense > 0 && rr.Intn(100) < sc.Dense {
				b[i] = hostileBytes[rr.Intn(len(hostileBytes))]
			} else {
				b[i] = rr.Byte()
			}
		}
	}
	var inner z80.Memory
	switch sc.MemKind {
	case "dumb":
		d := make(z80.DumbMemory, sc.MemLen)
		fill(d)
		inner = d
	case "map":
		mm := z80.MapMemory{}
		for i := 0; i < sc.Dense; i++ {
			mm[rr.U16()] = hostileBytes[rr.Intn(len(hostileBytes))]
		}
		inner = mm
	default:
		d := make(z80.DumbMemory, 65536)
		fill(d)
		inner = d
	}
	for _, s := range sc.Patch {
		b, _ := s.Bytes()
		a := s.Addr
		for _, x := range b {
			inner.Set(a, x)
			a++
		}
	}
	cpu := &z80.CPU{States: sc.Regs.States()}
	cpu.IM = int(sc.IM)
	w.cpu = cpu
	onAccess := func() {
		for i, e := range sc.Events {
			if !w.fired[i] && e.AtTick != 0 && e.AtTick == w.tick && (!w.inCallback || e.Do == "") {
				w.fired[i] = true
				switch e.Do {
				case "reenter":
					if !sc.UseRun && !w.inCallback {
						w.inCallback, w.reentered = true, true
						cpu.Step() // a callback that calls back into the CPU value
						w.inCallback = false
						env.Fire("callback-reenters-Step")
					}
					continue
				case "copykeep":
					// the callback snapshots the CPU value as it is at this instant - including whatever
					// cpu.Memory is right now - and the host uses the snapshot after this Step has returned
					if !sc.UseRun && !w.inCallback && w.kept == nil {
						cp := *cpu
						w.kept = &cp
						env.Fire("callback-snapshots-cpu-for-later-use")
					}
					continue
				case "copystep":
					if !sc.UseRun && !w.inCallback {
						w.inCallback, w.reentered = true, true // the copy logs into the same process-global logger
						cp := *cpu                             // struct copy taken while a Step (possibly an acceptance) is in progress
						cp.Memory = make(z80.DumbMemory, 256)
						cp.IO = nil
						cp.Step()
						cp.Step()
						w.kept = &cp // ... and again after the Step in which it was taken has returned
						w.inCallback = false
						env.Fire("callback-copies-cpu-and-steps-the-copy")
					}
					continue
				}
				cpu.Interrupt = e.request()
				if w.cancel == nil || w.tick <= w.cancelAt { // after cancel() the number of further Steps is the Go scheduler's
					env.Fire(fmt.Sprintf("malformed-request@tick/type=%d", e.Type))
				}
			}
		}
		if w.cancel != nil && w.tick == w.cancelAt {
			w.cancel()
		}
		if w.hardStop != 0 && w.tick > w.hardStop {
			panic(&c12Stop{w.stopWhy})
		}
	}
	if sc.Watch {
		plain := onAccess
		onAccess = func() {
			if l := w.log; len(l) > 0 && l[len(l)-1].Kind == world.MW && (sc.WatchAll || l[len(l)-1].Addr-sc.WatchAt < 0x100) {
				cpu.Interrupt = z80.NMIInterrupt()
				env.Fire("write-watch-device-posts-NMI")
			}
			plain()
		}
	}
	cpu.Memory = recMem{inner, &w.log, &w.tick, onAccess}
	if sc.Direct && !sc.UseRun {
		cpu.Memory = inner
	}
	wrapIO := func(d z80.DumbIO) z80.IO {
		if sc.Direct && !sc.UseRun {
			return d
		}
		return recIO{d, &w.log, &w.tick, onAccess}
	}
	switch sc.IOKind {
	case "dumb":
		d := make(z80.DumbIO, sc.IOLen)
		fill(d)
		cpu.IO = wrapIO(d)
	case "full":
		d := make(z80.DumbIO, 256)
		fill(d)
		cpu.IO = wrapIO(d)
	default:
		cpu.IO = nil
	}
	if len(sc.BP) > 0 {
		cpu.BreakPoints = map[uint16]struct{}{}
		for _, a := range sc.BP {
			cpu.BreakPoints[a] = struct{}{}
		}
	}
	for i, e := range sc.Events {
		if e.AtTick == 0 && e.AtStep == 0 && sc.UseRun {
			w.fired[i] = true
			cpu.Interrupt = e.request()
		}
	}
	return w
}

func (c12) Exec(sci interface{}, env *Env) (res *Violation) {
	sc := sci.(*C12Sc)
	// "no input makes the emulator hang": every scenario runs under a real-time watchdog (the property's
	// own observe_at names one). A scenario of <= 400 Steps takes micro- to milliseconds.
	type c12Res struct {
		idx int
		v   *Violation
	}
	done := make(chan c12Res, 1+len(sc.Concurrent))
	// the world's goroutine may never come back (that is the `hang` verdict): it collects its statistics
	// in an environment of its own, added to the worker's only once it has finished
	pe := env.Private()
	for i := range sc.Concurrent {
		i := i
		o := sc.Concurrent[i] // a copy: executing never edits the scenario
		go func() {
			defer func() {
				if r := recover(); r != nil {
					done <- c12Res{i + 1, viol("panic", "concurrent world: %v", r)}
				}
			}()
			q := NewEnv()
			q.Quiet = true
			o.Direct = true
			done <- c12Res{i + 1, c12Exec(&o, q)}
		}()
	}
	go func() {
		defer func() {
			if r := recover(); r != nil {
				done <- c12Res{0, viol("panic", "%v", r)}
			}
		}()
		m := sc
		if len(sc.Concurrent) > 0 {
			c := *sc
			c.Direct = true // the log capture is shared: no per-Step history verdicts while other worlds run
			m = &c
			pe.Fire("hostile-worlds-running-concurrently")
		}
		done <- c12Res{0, c12Exec(m, pe)}
	}()
	// every world must have finished before the scenario is over: nothing may still be stepping or
	// logging when the next scenario starts (and of several violations the one of
	// the lowest-numbered world is reported, whatever order they finished in)
	timeout := time.After(c12Watchdog)
	var first *Violation
	firstIdx := -1
	for n := 0; n < 1+len(sc.Concurrent); n++ {
		select {
		case r := <-done:
			if r.v != nil && (first == nil || r.idx < firstIdx) {
				first, firstIdx = r.v, r.idx
			}
			if r.idx == 0 {
				env.Merge(pe)
			}
		case <-timeout:
			return viol("hang", "Step/Run did not come back within %v of real time (memory %s/%d dense %d, io %s, IM=%d, use_run=%t, regs{%s}): Step must return normally, Run must return once its program halts", c12Watchdog, sc.MemKind, sc.MemLen, sc.Dense, sc.IOKind, sc.IM, sc.UseRun, world.FmtStates(sc.Regs.States()))
		}
	}
	return first
}

func c12Exec(sc *C12Sc, env *Env) (res *Violation) {
	fe := env
	if sc.UseRun {
		fe = NewEnv() // the Run-driven world's own event counts are schedule dependent after cancel(): the twin's are kept
	}
	w := c12Build(sc, fe)
	cpu := w.cpu
	where := "set-up"
	defer func() {
		if r := recover(); r != nil {
			if s, ok := r.(*c12Stop); ok {
				if s.why == "halted" {
					res = viol("run-returns-at-halt", "Run was still executing %d accesses after the Step in which the bus shows an executed HALT (memory %s/%d, io %s/%d, IM=%d)", 64, sc.MemKind, sc.MemLen, sc.IOKind, sc.IOLen, sc.IM)
					return
				}
				env.Class("run/%s", s.why)
				res = nil
				return
			}
			res = viol("panic", "%s: %v (memory %s/%d, io %s/%d, IM=%d, regs{%s})", where, r, sc.MemKind, sc.MemLen, sc.IOKind, sc.IOLen, sc.IM, world.FmtStates(cpu.States))
		}
	}()
	env.Class("env/mem=%s/io=%s/im=%s/direct=%t", sc.MemKind, sc.IOKind, imClass(sc.IM), sc.Direct && !sc.UseRun)
	env.NonTrivial = true

	if sc.UseRun {
		// Step-driven twin in an identical environment: does the program reach an
		// executed HALT (bus history) or a breakpoint within the budget, and when?
		tw := c12Build(sc, env)
		stopTick, stopped := uint64(0), false
		where = "twin Step"
		for i := 0; i < sc.Steps; i++ {
			pc := tw.cpu.PC
			hadReq := tw.cpu.Interrupt != nil
			tw.log = tw.log[:0]
			tw.cpu.Step()
			if _, hit := tw.cpu.BreakPoints[tw.cpu.PC]; hit && tw.cpu.BreakPoints != nil {
				stopTick, stopped = tw.tick, true
				break
			}
			if !hadReq && world.IsHaltStep(tw.log, pc, tw.cpu.PC) {
				stopTick, stopped = tw.tick, true
				break
			}
		}
		ctx, c := context.WithCancel(context.Background())
		defer c()
		if stopped {
			w.hardStop, w.stopWhy = stopTick+64, "halted"
		} else {
			w.cancel, w.cancelAt = c, tw.tick+1
			w.hardStop, w.stopWhy = w.cancelAt+20_000_000, "cancel-ignored"
		}
		where = "Run"
		err := cpu.Run(ctx)
		w.hardStop = 0
		// (counted by what the Step-driven twin predicts: after the harness's cancel() the number of Steps
		// Run still performs is the Go scheduler's, so what Run itself returns then is not replayable)
		switch {
		case stopped && err == nil:
			env.Fire("run-returned-halted")
		case stopped && err == z80.ErrBreakPoint:
			env.Fire("run-returned-breakpoint")
		case stopped:
			env.Fire("run-returned-other")
		default:
			env.Fire("run-ended-by-cancellation")
		}
		env.Ticks += tw.tick
		env.Steps += uint64(sc.Steps)
		return nil
	}

	pendingNext := uint16(0)
	checkNext := false
	useKept := func(step int) {
		k := w.kept
		if k == nil {
			return
		}
		w.kept = nil
		where = fmt.Sprintf("Step of a CPU value copied inside a device callback of Step %d, used after that Step returned", step)
		w.inCallback = true // events stay quiet while the snapshot is exercised
		k.Step()
		k.Step()
		k.Interrupt = nil
		k.Step()
		w.inCallback = false
	}
	defer func() {
		if res == nil {
			defer func() {
				if r := recover(); r != nil {
					res = viol("panic", "%s: %v", where, r)
				}
			}()
			useKept(sc.Steps)
		}
	}()
	for step := 0; step < sc.Steps; step++ {
		useKept(step - 1) // (between two Steps of the main CPU: its history verdict is already in)
		for i, e := range sc.Events {
			if !w.fired[i] && e.AtTick == 0 && e.AtStep == step {
				w.fired[i] = true
				cpu.Interrupt = e.request()
				env.Fire(fmt.Sprintf("malformed-request@boundary/type=%d", e.Type))
			}
		}
		hadReq := cpu.Interrupt != nil
		pcBefore := cpu.PC
		w.log = w.log[:0]
		if !sc.Direct {
			env.LogBuf.Reset() // (never while other worlds may be logging: only package log writes the shared buffer then)
		}
		where = fmt.Sprintf("Step %d at PC=%04x request=%s", step, pcBefore, world.FmtRequest(cpu.Interrupt))
		cpu.Step()
		env.Steps++
		log := w.log
		if sc.Direct {
			continue // no bus history without the recording wrapper: totality only
		}
		if w.reentered {
			// the log of this Step also holds the nested Step's accesses: no history verdict
			w.reentered, checkNext = false, false
			continue
		}
		if checkNext && !hadReq {
			// execution continues with the next byte
			if len(log) == 0 || log[0].Kind != world.MR || log[0].Addr != pendingNext || pcBefore != pendingNext {
				return viol("unsupported-consumed", "after an unsupported opcode the next Step must fetch the next byte at %04x; PC=%04x history %s", pendingNext, pcBefore, world.FmtLog(log))
			}
		}
		checkNext = false
		if !hadReq && strings.Contains(env.LogBuf.String(), "invalid") {
			// "Unsupported opcodes are consumed and execution continues with the next byte" - in this Step or
			// the next, the statement does not say: an implementation may warn about an index prefix it
			// ignores and execute what follows at once, data accesses, jumps and all. A verdict is possible
			// only where the Step did nothing but fetch sequentially and left PC inside what it fetched:
			// then it consumed at least one byte, and the next Step starts at the new PC.
			fetchOnly := len(log) > 0
			for i, a := range log {
				if a.Kind != world.MR || a.Addr != pcBefore+uint16(i) {
					fetchOnly = false
				}
			}
			adv := cpu.PC - pcBefore
			if fetchOnly && adv == 0 && len(log) <= 2 && log[len(log)-1].Val != 0xe9 && log[len(log)-1].Val != 0x76 {
				// (E9: JP (HL)/(IX)/(IY) may legitimately land on itself; 76: a HALT stays where it is)
				return viol("unsupported-consumed", "Step at PC=%04x warned %q, fetched %s and left PC where it was: nothing was consumed", pcBefore, strings.TrimSpace(env.LogBuf.String()), world.FmtLog(log))
			}
			if fetchOnly && adv >= 1 && int(adv) <= len(log) {
				pendingNext = cpu.PC
				checkNext = true
				env.Fire("unsupported-opcode-consumed")
			}
		}
	}
	env.Ticks += w.tick
	return nil
}

func imClass(im int64) string {
	switch {
	case im >= 0 && im <= 2:
		return "0..2"
	case im < 0:
		return "negative"
	case im > 255:
		return "huge"
	default:
		return "3..255"
	}
}

func (c12) Shrink(sci interface{}, _ *Violation) []interface{} {
	p := c12{}
	sc := sci.(*C12Sc)
	var out []interface{}
	for i := range sc.Events {
		n := Clone(p, sc).(*C12Sc)
		n.Events = append(n.Events[:i], n.Events[i+1:]...)
		out = append(out, n)
	}
	for _, s := range []int{1, sc.Steps / 2, sc.Steps - 1} {
		if s >= 1 && s < sc.Steps {
			n := Clone(p, sc).(*C12Sc)
			n.Steps = s
			out = append(out, n)
		}
	}
	if sc.Dense != 0 {
		n := Clone(p, sc).(*C12Sc)
		n.Dense = 0
		out = append(out, n)
	}
	if len(sc.Patch) > 0 {
		n := Clone(p, sc).(*C12Sc)
		n.Patch = nil
		out = append(out, n)
	}
	if sc.IOKind != "nil" {
		n := Clone(p, sc).(*C12Sc)
		n.IOKind = "nil"
		out = append(out, n)
	}
	if sc.IM != 0 {
		n := Clone(p, sc).(*C12Sc)
		n.IM = 0
		out = append(out, n)
	}
	z := sc.Regs
	z.AF2, z.BC2, z.DE2, z.HL2, z.R, z.I = 0, 0, 0, 0, 0, 0
	if z != sc.Regs {
		n := Clone(p, sc).(*C12Sc)
		n.Regs = z
		out = append(out, n)
	}
	for i := range sc.Events {
		if sc.Events[i].AtStep > 0 {
			n := Clone(p, sc).(*C12Sc)
			n.Events[i].AtStep = 0
			out = append(out, n)
		}
	}
	return out
}
