package world

import (
	"encoding/hex"
	"fmt"

	"github.com/koron-go/z80"
)

// Seg is a run of bytes at an address (hex encoded in scenario files).
type Seg struct {
	Addr uint16 `json:"addr"`
	Hex  string `json:"hex"`
}

// Bytes decodes the segment.
func (s Seg) Bytes() ([]uint8, error) { return hex.DecodeString(s.Hex) }

// MkSeg builds a segment.
func MkSeg(addr uint16, b []uint8) Seg { return Seg{addr, hex.EncodeToString(b)} }

// Regs is the JSON form of z80.States.
type Regs struct {
	AF, BC, DE, HL     uint16
	AF2, BC2, DE2, HL2 uint16
	IX, IY, SP, PC     uint16
	I, R               uint8
	IFF1, IFF2         bool
	IM                 int
}

// States converts to the library's type.
func (r Regs) States() z80.States {
	var s z80.States
	s.AF.SetU16(r.AF)
	s.BC.SetU16(r.BC)
	s.DE.SetU16(r.DE)
	s.HL.SetU16(r.HL)
	s.Alternate.AF.SetU16(r.AF2)
	s.Alternate.BC.SetU16(r.BC2)
	s.Alternate.DE.SetU16(r.DE2)
	s.Alternate.HL.SetU16(r.HL2)
	s.IX, s.IY, s.SP, s.PC = r.IX, r.IY, r.SP, r.PC
	s.IR.Hi, s.IR.Lo = r.I, r.R
	s.IFF1, s.IFF2, s.IM = r.IFF1, r.IFF2, r.IM
	return s
}

// FromStates converts from the library's type.
func FromStates(s z80.States) Regs {
	return Regs{
		AF: s.AF.U16(), BC: s.BC.U16(), DE: s.DE.U16(), HL: s.HL.U16(),
		AF2: s.Alternate.AF.U16(), BC2: s.Alternate.BC.U16(), DE2: s.Alternate.DE.U16(), HL2: s.Alternate.HL.U16(),
		IX: s.IX, IY: s.IY, SP: s.SP, PC: s.PC, I: s.IR.Hi, R: s.IR.Lo,
		IFF1: s.IFF1, IFF2: s.IFF2, IM: s.IM,
	}
}

// RandRegs draws an arbitrary register file.
func RandRegs(r *Rng) Regs {
	return Regs{
		AF: r.U16(), BC: r.U16(), DE: r.U16(), HL: r.U16(),
		AF2: r.U16(), BC2: r.U16(), DE2: r.U16(), HL2: r.U16(),
		IX: r.U16(), IY: r.U16(), SP: r.U16(), PC: r.U16(), I: r.Byte(), R: r.Byte(),
		IFF1: r.Bool(), IFF2: r.Bool(), IM: r.Intn(3),
	}
}

// FmtStates renders the register file compactly.
func FmtStates(s z80.States) string {
	return fmt.Sprintf("AF=%04x BC=%04x DE=%04x HL=%04x AF'=%04x BC'=%04x DE'=%04x HL'=%04x IX=%04x IY=%04x SP=%04x PC=%04x I=%02x R=%02x IFF1=%t IFF2=%t IM=%d",
		s.AF.U16(), s.BC.U16(), s.DE.U16(), s.HL.U16(),
		s.Alternate.AF.U16(), s.Alternate.BC.U16(), s.Alternate.DE.U16(), s.Alternate.HL.U16(),
		s.IX, s.IY, s.SP, s.PC, s.IR.Hi, s.IR.Lo, s.IFF1, s.IFF2, s.IM)
}

// DiffStates lists the fields that differ ("" when equal). When ignoreR the
// refresh counter is not compared.
func DiffStates(a, b z80.States, ignoreR bool) string {
	if ignoreR {
		a.IR.Lo, b.IR.Lo = 0, 0
	}
	if a == b {
		return ""
	}
	ra, rb := FromStates(a), FromStates(b)
	out := ""
	add := func(n string, x, y interface{}) {
		if x != y {
			out += fmt.Sprintf(" %s:%v!=%v", n, x, y)
		}
	}
	h := func(v uint16) string { return fmt.Sprintf("%04x", v) }
	add("AF", h(ra.AF), h(rb.AF))
	add("BC", h(ra.BC), h(rb.BC))
	add("DE", h(ra.DE), h(rb.DE))
	add("HL", h(ra.HL), h(rb.HL))
	add("AF'", h(ra.AF2), h(rb.AF2))
	add("BC'", h(ra.BC2), h(rb.BC2))
	add("DE'", h(ra.DE2), h(rb.DE2))
	add("HL'", h(ra.HL2), h(rb.HL2))
	add("IX", h(ra.IX), h(rb.IX))
	add("IY", h(ra.IY), h(rb.IY))
	add("SP", h(ra.SP), h(rb.SP))
	add("PC", h(ra.PC), h(rb.PC))
	add("I", ra.I, rb.I)
	add("R", ra.R, rb.R)
	add("IFF1", ra.IFF1, rb.IFF1)
	add("IFF2", ra.IFF2, rb.IFF2)
	add("IM", ra.IM, rb.IM)
	return out
}

// Event kinds.
const (
	EvNMI = "NMI"
	EvINT = "INT"
)

// Event is one asynchronous request the simulator raises.
type Event struct {
	Kind string `json:"kind"`           // NMI | INT
	Data string `json:"data,omitempty"` // hex: mode-0 instruction bytes / mode-2 vector
	// Exactly one of the following places the event.
	Boundary int    `json:"boundary,omitempty"` // before Step number Boundary (0-based) when AtTick==0 && !OnRet
	AtTick   uint64 `json:"at_tick,omitempty"`  // from inside the device callback of access number AtTick (1-based)
	OnRet    bool   `json:"on_ret,omitempty"`   // on the next RETI/RETN notification
	// Force: a device that does not look before it writes - cpu.Interrupt is overwritten at AtTick
	// whatever it holds (also in the middle of an acceptance). Twin-based checks only.
	Force bool `json:"force,omitempty"`
}

// Request converts the event to the library's request value.
func (e Event) Request() *z80.Interrupt {
	if e.Kind == EvNMI {
		return z80.NMIInterrupt()
	}
	// through the library's own constructors, as a host program would
	d, _ := hex.DecodeString(e.Data)
	switch {
	case len(d) == 0:
		return z80.IM1Interrupt()
	case len(d) == 1 && d[0]&1 == 0:
		return z80.IM2Interrupt(d[0]) // even byte: a mode-2 vector
	default:
		// RST n (odd opcodes) / CALL nn / anything longer. The operand bytes come out of a buffer of the
		// host's with room to spare, and the host goes on using that buffer afterwards: the request must
		// not live in the caller's slice
		buf := make([]uint8, len(d)-1, len(d)+7)
		copy(buf, d[1:])
		q := z80.IM0Interrupt(d[0], buf...)
		buf = buf[:cap(buf)]
		for i := range buf {
			buf[i] = 0xa5
		}
		return q
	}
}

// SameRequest compares two requests by value.
func SameRequest(a, b *z80.Interrupt) bool {
	if a == nil || b == nil {
		return a == b
	}
	if a.Type != b.Type || len(a.Data) != len(b.Data) {
		return false
	}
	for i := range a.Data {
		if a.Data[i] != b.Data[i] {
			return false
		}
	}
	return true
}

// FmtRequest renders a request.
func FmtRequest(a *z80.Interrupt) string {
	if a == nil {
		return "none"
	}
	if a.Type == z80.NMIType {
		return "NMI"
	}
	if len(a.Data) > 12 {
		return fmt.Sprintf("INT(%x..%d bytes)", a.Data[:12], len(a.Data))
	}
	return fmt.Sprintf("INT(%x)", a.Data)
}

// CloneRequest copies a request value.
func CloneRequest(a *z80.Interrupt) *z80.Interrupt {
	if a == nil {
		return nil
	}
	return &z80.Interrupt{Type: a.Type, Data: append([]uint8(nil), a.Data...)}
}

// Counter implements both notification handlers.
type Counter struct {
	RETN, RETI int
	OnRet      func()
}

// RETNHandle counts a RETN notification.
func (c *Counter) RETNHandle() {
	c.RETN++
	if c.OnRet != nil {
		c.OnRet()
	}
}

// RETIHandle counts a RETI notification.
func (c *Counter) RETIHandle() {
	c.RETI++
	if c.OnRet != nil {
		c.OnRet()
	}
}
