package world

import (
	"fmt"

	"github.com/koron-go/z80"
)

// Access kinds.
const (
	MR uint8 = iota // memory read
	MW              // memory write
	PI              // port read
	PO              // port write
)

var kindName = [...]string{"MR", "MW", "PI", "PO"}

// Acc is one bus access as a device sees it.
type Acc struct {
	Kind uint8
	Addr uint16
	Val  uint8
}

func (a Acc) String() string {
	if a.Kind >= PI {
		return fmt.Sprintf("%s(%02x)=%02x", kindName[a.Kind], a.Addr, a.Val)
	}
	return fmt.Sprintf("%s(%04x)=%02x", kindName[a.Kind], a.Addr, a.Val)
}

// FmtLog renders an access list.
func FmtLog(l []Acc) string {
	s := "["
	for i, a := range l {
		if i > 0 {
			s += " "
		}
		s += a.String()
	}
	return s + "]"
}

// Bus is the simulated 64 KiB memory plus 256 ports of one CPU. Every access
// is one simulator tick: it is counted, hashed into the running history,
// appended to the per-Step log and then handed to OnAccess, which is where
// the simulator injects asynchronous events "in the middle of" an instruction.
type Bus struct {
	Mem  [65536]uint8
	Tick uint64 // number of accesses so far (the event sequence number)
	Hash uint64 // rolling hash of the whole access history
	Log  []Acc  // accesses since the last ResetLog (one Step, normally)

	// Port input stream: the n-th port read (counted over all ports) returns
	// a byte derived from (IOSeed, n), so the stream cannot be reordered by an
	// interruption and every read is attributable.
	IOSeed    uint64
	PortReads uint64
	// PortLog keeps the ordered port traffic of the whole run when KeepPorts.
	KeepPorts bool
	PortLog   []Acc
	// Writes counts memory writes, WHash hashes them in order.
	WHash uint64

	OnAccess func(b *Bus, a Acc)

	// Gen is the generation of the device views handed to the CPU. A view of an
	// older generation is one the host has replaced (Machine.SwapDevices); traffic
	// arriving through it is counted in StaleAcc.
	Gen      int
	StaleAcc int
}

// NewBus returns an empty bus.
func NewBus() *Bus { return &Bus{} }

// ResetLog starts a new per-Step log.
func (b *Bus) ResetLog() { b.Log = b.Log[:0] }

func (b *Bus) rec(a Acc) {
	b.Tick++
	b.Hash = Mix64(b.Hash, uint64(a.Kind)<<24|uint64(a.Addr)<<8|uint64(a.Val))
	if len(b.Log) >= 1<<16 {
		// the log is one Step's history (a Step makes a handful of accesses); under Run nobody resets it -
		// it must not grow with the length of the Run
		b.Log = b.Log[:0]
	}
	b.Log = append(b.Log, a)
	if a.Kind >= PI && b.KeepPorts && len(b.PortLog) < 1<<20 {
		b.PortLog = append(b.PortLog, a) // (the first million port accesses; every world is cut off alike)
	}
	if b.OnAccess != nil {
		b.OnAccess(b, a)
	}
}

// InByte is the byte the n-th port read returns.
func InByte(seed, n uint64, port uint8) uint8 {
	return uint8(Mix64(seed, n) >> 11)
}

// Memory returns the z80.Memory view.
func (b *Bus) Memory() z80.Memory { return busMem{b, b.Gen} }

// IO returns the z80.IO view.
func (b *Bus) IO() z80.IO { return busIO{b, b.Gen} }

type busMem struct {
	b   *Bus
	gen int
}

func (m busMem) Get(addr uint16) uint8 {
	if m.gen != m.b.Gen {
		m.b.StaleAcc++
	}
	v := m.b.Mem[addr]
	m.b.rec(Acc{MR, addr, v})
	return v
}

func (m busMem) Set(addr uint16, v uint8) {
	if m.gen != m.b.Gen {
		m.b.StaleAcc++
	}
	m.b.Mem[addr] = v
	m.b.WHash = Mix64(m.b.WHash, uint64(addr)<<8|uint64(v))
	m.b.rec(Acc{MW, addr, v})
}

type busIO struct {
	b   *Bus
	gen int
}

func (i busIO) In(port uint8) uint8 {
	if i.gen != i.b.Gen {
		i.b.StaleAcc++
	}
	v := InByte(i.b.IOSeed, i.b.PortReads, port)
	i.b.PortReads++
	i.b.rec(Acc{PI, uint16(port), v})
	return v
}

func (i busIO) Out(port uint8, v uint8) {
	if i.gen != i.b.Gen {
		i.b.StaleAcc++
	}
	i.b.rec(Acc{PO, uint16(port), v})
}

// Load copies segments into memory without generating accesses.
func (b *Bus) Load(segs []Seg) error {
	for _, s := range segs {
		d, err := s.Bytes()
		if err != nil {
			return err
		}
		a := s.Addr
		for _, x := range d {
			b.Mem[a] = x
			a++
		}
	}
	return nil
}

// Clone copies the durable part of the bus (memory image and device cursors);
// logs, hashes and callbacks are not copied.
func (b *Bus) Clone() *Bus {
	n := &Bus{Mem: b.Mem, IOSeed: b.IOSeed, PortReads: b.PortReads, KeepPorts: b.KeepPorts}
	return n
}

// Overlay is a recording copy-on-write view of a Bus for a one-Step twin: it
// reads the base image, keeps its own writes, logs like a Bus and draws the
// same port input bytes the base would draw next. The base is not modified.
type Overlay struct {
	Base      *Bus
	W         map[uint16]uint8
	Log       []Acc
	portReads uint64
}

// NewOverlay returns an empty overlay over b.
func NewOverlay(b *Bus) *Overlay {
	return &Overlay{Base: b, W: map[uint16]uint8{}, portReads: b.PortReads}
}

// Get implements z80.Memory.
func (o *Overlay) Get(a uint16) uint8 {
	v, ok := o.W[a]
	if !ok {
		v = o.Base.Mem[a]
	}
	o.Log = append(o.Log, Acc{MR, a, v})
	return v
}

// Set implements z80.Memory.
func (o *Overlay) Set(a uint16, v uint8) {
	o.W[a] = v
	o.Log = append(o.Log, Acc{MW, a, v})
}

// In implements z80.IO.
func (o *Overlay) In(p uint8) uint8 {
	v := InByte(o.Base.IOSeed, o.portReads, p)
	o.portReads++
	o.Log = append(o.Log, Acc{PI, uint16(p), v})
	return v
}

// Out implements z80.IO.
func (o *Overlay) Out(p uint8, v uint8) { o.Log = append(o.Log, Acc{PO, uint16(p), v}) }
