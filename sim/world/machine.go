package world

import (
	"bytes"
	"encoding/hex"
	"fmt"

	"github.com/koron-go/z80"
)

// Machine is one simulated computer: the real z80.CPU wired to a Bus, the
// notification counters and the interrupt controller that turns the
// scenario's events into values of cpu.Interrupt at the chosen instants.
type Machine struct {
	CPU *z80.CPU
	Bus *Bus
	Cnt *Counter

	Steps int // completed Steps = index of the next boundary

	evs    []Event
	raised []bool
	queue  []*z80.Interrupt

	// Measured reach.
	Raised    map[string]int // events that entered the controller, by placement kind
	Accepted  int            // acceptance Steps observed (Step-driven runs only)
	AccSP     []uint16       // SP just before each acceptance
	AccPC     []uint16       // PC just before each acceptance
	AccKinds  []string
	Presented []*z80.Interrupt        // every request the controller put into the slot, in order
	Hook      func(m *Machine, a Acc) // extra per-access hook (after the controller)
	NoPresent bool                    // when set the controller never touches cpu.Interrupt
	// BoundaryOnly: the controller presents between Steps only, never from inside a device callback (for
	// comparisons between worlds whose devices do not all call back)
	BoundaryOnly bool
	posted       []*z80.Interrupt // requests devices wrote into the slot during the current Step
	// RestoreHALT: Restore also copies the HALT field (C09's crash event keeps it; C10 does not:
	// its statement lists registers, flags, IFF/IM and the pending request only).
	RestoreHALT bool
	// Mutated: set when a kept request value was found modified (see request()).
	Mutated string
	// ReuseRequests: see request(). Set by NewMachine from the scenario (odd IOSeed).
	ReuseRequests  bool
	SharedRequests map[string]*z80.Interrupt
	reqCache       map[string]*z80.Interrupt
	// SwapMode: 1 = SwapDevices(false) at every boundary, 2 = SwapDevices(true) (host fault, see SwapDevices)
	SwapMode int
}

// NewMachine builds a machine from scenario parts.
func NewMachine(regs Regs, segs []Seg, ioSeed uint64, evs []Event) (*Machine, error) {
	m := &Machine{Bus: NewBus(), Cnt: &Counter{}, evs: evs, raised: make([]bool, len(evs)), Raised: map[string]int{}}
	if err := m.Bus.Load(segs); err != nil {
		return nil, err
	}
	m.Bus.IOSeed = ioSeed
	m.ReuseRequests = ioSeed&1 == 1 && ioSeed != 1
	m.CPU = &z80.CPU{States: regs.States(), Memory: m.Bus.Memory(), IO: m.Bus.IO(), RETNHandler: m.Cnt, RETIHandler: m.Cnt}
	m.Bus.OnAccess = m.onAccess
	m.Cnt.OnRet = m.onRet
	return m, nil
}

// request returns the library request value for event i. In machines with
// ReuseRequests the host keeps ONE request value per (kind, data) and puts the
// same pointer into cpu.Interrupt every time (`var irq = z80.IM1Interrupt()`),
// so anything the library writes into a request survives to its next use.
func (m *Machine) request(i int) *z80.Interrupt {
	q := m.request1(i)
	// whatever way the value was made, it must carry the bytes the device means to put on the bus (the
	// constructors are given a buffer of the host's that the host goes on using: see Event.Request)
	if e := m.evs[i]; e.Kind == EvINT && e.Data != "" && m.Mutated == "" {
		if d, _ := hex.DecodeString(e.Data); !bytes.Equal(q.Data, d) {
			m.Mutated = fmt.Sprintf("the request made through the library's constructor from the bytes %s holds %x once the host has gone on using its own buffer", e.Data, q.Data)
		}
	}
	return q
}

func (m *Machine) request1(i int) *z80.Interrupt {
	if !m.ReuseRequests {
		return m.evs[i].Request()
	}
	key := m.evs[i].Kind + "/" + m.evs[i].Data
	if m.SharedRequests != nil {
		// one value per kind for SEVERAL machines (`var nmi = z80.NMIInterrupt()` used by every core):
		// the map is filled before the machines start and only read afterwards
		if q, ok := m.SharedRequests[key]; ok {
			return q
		}
	}
	if m.reqCache == nil {
		m.reqCache = map[string]*z80.Interrupt{}
	}
	if q, ok := m.reqCache[key]; ok {
		// the value the host kept must still be what the host made it
		if fresh := m.evs[i].Request(); !SameRequest(q, fresh) && m.Mutated == "" {
			m.Mutated = "the request value the host keeps for " + key + " was " + FmtRequest(fresh) + " when created and is " + FmtRequest(q) + " now: the library wrote into it"
		}
		return q
	}
	q := m.evs[i].Request()
	m.reqCache[key] = q
	return q
}

func (m *Machine) enqueue(i int, how string) {
	m.raised[i] = true
	m.queue = append(m.queue, m.request(i))
	m.Raised[how+"/"+m.evs[i].Kind]++
}

// RaiseNow is the host raising a request between two calls.
func (m *Machine) RaiseNow(e Event, how string) {
	m.queue = append(m.queue, e.Request())
	m.Raised[how+"/"+e.Kind]++
	m.present()
}

// QueueLen returns the number of raised, not yet presented requests.
func (m *Machine) QueueLen() int { return len(m.queue) }

// present puts the head of the queue into the CPU's request slot if it is
// free (NMI first). It never overwrites a request.
func (m *Machine) present() {
	if m.NoPresent || m.CPU.Interrupt != nil || len(m.queue) == 0 {
		return
	}
	k := 0
	for i, q := range m.queue {
		if q.Type == z80.NMIType {
			k = i
			break
		}
	}
	m.CPU.Interrupt = m.queue[k]
	m.Presented = append(m.Presented, m.queue[k])
	m.posted = append(m.posted, m.queue[k])
	m.queue = append(m.queue[:k], m.queue[k+1:]...)
}

// Post is a device writing the slot from inside a callback without looking at it first (hooks of the
// property executors use it, so that the Step in progress knows).
func (m *Machine) Post(q *z80.Interrupt) {
	m.CPU.Interrupt = q
	m.posted = append(m.posted, q)
}

func (m *Machine) onAccess(b *Bus, a Acc) {
	for i := range m.evs {
		if !m.raised[i] && m.evs[i].AtTick != 0 && m.evs[i].AtTick == b.Tick {
			if m.evs[i].Force && !m.NoPresent {
				m.raised[i] = true
				m.CPU.Interrupt = m.request(i)
				m.posted = append(m.posted, m.CPU.Interrupt)
				m.Raised["forced/"+m.evs[i].Kind]++
				continue
			}
			m.enqueue(i, "tick")
		}
	}
	if !m.BoundaryOnly {
		m.present()
	}
	if m.Hook != nil {
		m.Hook(m, a)
	}
}

func (m *Machine) onRet() {
	for i := range m.evs {
		if !m.raised[i] && m.evs[i].OnRet {
			m.enqueue(i, "ret")
			break
		}
	}
	if !m.BoundaryOnly {
		m.present()
	}
}

// Boundary is what the host does between two Steps: raise the events placed
// at this boundary, let an NMI overtake a refused maskable request, present.
func (m *Machine) Boundary() {
	for i := range m.evs {
		e := &m.evs[i]
		if !m.raised[i] && e.AtTick == 0 && !e.OnRet && e.Boundary == m.Steps {
			m.enqueue(i, "boundary")
		}
	}
	if !m.NoPresent && m.CPU.Interrupt != nil && m.CPU.Interrupt.Type != z80.NMIType && !m.CPU.IFF1 {
		for _, q := range m.queue {
			if q.Type == z80.NMIType {
				m.queue = append([]*z80.Interrupt{m.CPU.Interrupt}, m.queue...)
				m.CPU.Interrupt = nil
				break
			}
		}
	}
	m.present()
}

// Pending reports whether any event is still to come or waiting.
func (m *Machine) Pending() bool {
	if len(m.queue) > 0 {
		return true
	}
	// tick / ret events may never fire; only boundary events still ahead count
	for i, e := range m.evs {
		if !m.raised[i] && e.AtTick == 0 && !e.OnRet && e.Boundary >= m.Steps {
			return true
		}
	}
	return false
}

// Quiescent reports that nothing more can happen to a CPU that stays parked:
// no boundary event ahead, no NMI waiting, and the slot is either empty with
// an empty queue or holds a maskable request that IFF1 refuses.
func (m *Machine) Quiescent() bool {
	for i, e := range m.evs {
		if !m.raised[i] && e.AtTick == 0 && !e.OnRet && e.Boundary >= m.Steps {
			return false
		}
	}
	for _, q := range m.queue {
		if q.Type == z80.NMIType {
			return false
		}
	}
	q := m.CPU.Interrupt
	if q == nil {
		return len(m.queue) == 0
	}
	return q.Type != z80.NMIType && !m.CPU.IFF1
}

// StepInfo describes one completed Step as the environment saw it.
type StepInfo struct {
	Before   z80.States
	Req      *z80.Interrupt // request in the slot when the Step began
	Accepted bool           // the Step consumed Req
	// PostedDuring: a device wrote the slot while the Step was under way (possible in the middle of an
	// acceptance if the library empties the slot first, and always for devices that do not look before
	// they write). Whether the library leaves such a request in the slot or drops it together with the
	// one it has just served no statement says: after such a Step the slot may hold it or be empty.
	PostedDuring bool
	Halted       bool // bus history shows an executed HALT: one fetch of 0x76 at PC, PC unmoved
}

// Step performs the boundary actions and one cpu.Step.
func (m *Machine) Step() StepInfo {
	m.Boundary()
	if m.SwapMode != 0 {
		m.SwapDevices(m.SwapMode == 2)
	}
	return m.StepNoBoundary()
}

// StepNoBoundary performs one cpu.Step without host boundary actions.
func (m *Machine) StepNoBoundary() StepInfo {
	var si StepInfo
	si.Before = m.CPU.States
	si.Req = m.CPU.Interrupt
	m.Bus.ResetLog()
	m.posted = m.posted[:0]
	var kept *z80.Interrupt
	if m.ReuseRequests && si.Req != nil {
		kept = CloneRequest(si.Req) // the host keeps this value and will present it again
	}
	m.CPU.Step()
	m.Steps++
	if kept != nil && !SameRequest(kept, si.Req) && m.Mutated == "" {
		m.Mutated = "the request value the host keeps and presents again later was " + FmtRequest(kept) + " before this Step and is " + FmtRequest(si.Req) + " after it: the library wrote into it"
	}
	consumed := si.Req != nil && m.CPU.Interrupt == nil
	if si.Req != nil && len(m.posted) > 0 {
		// what the slot holds now says nothing about the request the Step began with. An acceptance Step
		// runs no program instruction: it does not begin with the opcode fetch at PC. (Without a memory
		// history - library memory types - the slot no longer holding the request object decides.)
		si.PostedDuring = true
		if _, rec := m.CPU.Memory.(busMem); rec {
			l := m.Bus.Log
			consumed = !(len(l) > 0 && l[0].Kind == MR && l[0].Addr == si.Before.PC)
		} else {
			consumed = m.CPU.Interrupt != si.Req
		}
	}
	if consumed {
		si.Accepted = true
		m.Accepted++
		m.AccSP = append(m.AccSP, si.Before.SP)
		m.AccPC = append(m.AccPC, si.Before.PC)
		if si.Req.Type == z80.NMIType {
			m.AccKinds = append(m.AccKinds, EvNMI)
		} else {
			m.AccKinds = append(m.AccKinds, EvINT)
		}
	}
	si.Halted = IsHaltStep(m.Bus.Log, si.Before.PC, m.CPU.PC) && !si.Accepted
	return si
}

// IsHaltStep decides from the bus history whether a Step executed HALT: nothing but the opcode fetch of
// 76h, PC left on that opcode. An implementation that skips index prefixes it ignores and executes the
// HALT behind them in the same Step fetches DD/FD bytes first: also a HALT Step, PC on the 76h.
func IsHaltStep(log []Acc, pcBefore, pcAfter uint16) bool {
	n := len(log)
	if n == 0 || n > 4 {
		return false
	}
	for i, a := range log {
		if a.Kind != MR || a.Addr != pcBefore+uint16(i) {
			return false
		}
		if i < n-1 && a.Val != 0xdd && a.Val != 0xfd {
			return false
		}
	}
	return log[n-1].Val == 0x76 && pcAfter == pcBefore+uint16(n-1)
}

// Restore models a crash of the host with only durable state surviving: the
// CPU value is thrown away and a new one is built from copies of States, the
// memory image, the pending request and the device cursors. The simulator's
// own bookkeeping (clock, event schedule, logs) is environment and survives.
func (m *Machine) Restore() *Machine {
	nb := m.Bus.Clone()
	nb.Tick, nb.Hash, nb.WHash = m.Bus.Tick, m.Bus.Hash, m.Bus.WHash
	nb.PortLog = append([]Acc(nil), m.Bus.PortLog...)
	n := &Machine{Bus: nb, Cnt: &Counter{RETN: m.Cnt.RETN, RETI: m.Cnt.RETI}, Steps: m.Steps,
		evs: m.evs, raised: append([]bool(nil), m.raised...), queue: append([]*z80.Interrupt(nil), m.queue...),
		Raised: m.Raised, Accepted: m.Accepted, AccSP: m.AccSP, AccPC: m.AccPC, AccKinds: m.AccKinds,
		Presented: m.Presented, Hook: m.Hook, NoPresent: m.NoPresent, SwapMode: m.SwapMode, ReuseRequests: m.ReuseRequests, reqCache: m.reqCache}
	n.CPU = &z80.CPU{States: m.CPU.States, Memory: nb.Memory(), IO: nb.IO(), RETNHandler: n.Cnt, RETIHandler: n.Cnt,
		Interrupt: CloneRequest(m.CPU.Interrupt), BreakPoints: m.CPU.BreakPoints}
	if m.RestoreHALT {
		n.CPU.HALT = m.CPU.HALT
	}
	nb.OnAccess = n.onAccess
	n.Cnt.OnRet = n.onRet
	return n
}

// SwapDevices is a host action between two Steps: the CPU keeps running but its
// Memory and IO values are replaced by new ones over the same contents and
// cursors (equal bytes, a different interface value). With fork the CPU struct
// itself is copied by value first (fork := *cpu; fork.Memory = other), which
// carries every unexported field along. A reference to the replaced values that
// the library still holds shows up as traffic through a stale view (Stale).
func (m *Machine) SwapDevices(fork bool) {
	m.Bus.Gen++
	if fork {
		c := *m.CPU
		m.CPU = &c
	}
	m.CPU.Memory, m.CPU.IO = m.Bus.Memory(), m.Bus.IO()
	if m.CPU.RETNHandler != nil {
		// the notification handlers are replaced as well (new values forwarding to the same counters)
		h := &handlerView{m: m, gen: m.Bus.Gen}
		m.CPU.RETNHandler, m.CPU.RETIHandler = h, h
	}
}

// handlerView forwards notifications; one that the host has replaced counts as stale.
type handlerView struct {
	m   *Machine
	gen int
}

func (h *handlerView) RETNHandle() {
	if h.gen != h.m.Bus.Gen {
		h.m.Bus.StaleAcc++
	}
	h.m.Cnt.RETNHandle()
}

func (h *handlerView) RETIHandle() {
	if h.gen != h.m.Bus.Gen {
		h.m.Bus.StaleAcc++
	}
	h.m.Cnt.RETIHandle()
}

// Stale reports the accesses that arrived through replaced device values.
func (m *Machine) StaleCount() int { return m.Bus.StaleAcc }
