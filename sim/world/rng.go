// Package world holds the simulated environment of a z80.CPU: memory and port
// devices that record every bus access and act as the simulator's tick, the
// interrupt controller, scenario (de)serialisation helpers and the PRNG.
package world

// Rng is SplitMix64. It is the only source of choices in the simulator; it is
// implemented here so that scenarios do not depend on a Go release's
// math/rand.
type Rng struct{ s uint64 }

// NewRng returns a generator for the given seed.
func NewRng(seed uint64) *Rng { return &Rng{s: seed} }

// Derive returns an independent stream keyed by seed and labels.
func Derive(seed uint64, labels ...uint64) *Rng {
	r := NewRng(seed ^ 0x9e3779b97f4a7c15)
	x := r.U64()
	for _, l := range labels {
		r.s = x ^ (l+0x632be59bd9b4e019)*0xff51afd7ed558ccd
		x = r.U64()
	}
	return NewRng(x)
}

// U64 returns the next 64 random bits.
func (r *Rng) U64() uint64 {
	r.s += 0x9e3779b97f4a7c15
	z := r.s
	z = (z ^ (z >> 30)) * 0xbf58476d1ce4e5b9
	z = (z ^ (z >> 27)) * 0x94d049bb133111eb
	return z ^ (z >> 31)
}

// Intn returns a value in [0,n). n must be > 0.
func (r *Rng) Intn(n int) int {
	if n <= 1 {
		return 0
	}
	return int(r.U64() % uint64(n))
}

// Range returns a value in [lo,hi].
func (r *Rng) Range(lo, hi int) int {
	if hi <= lo {
		return lo
	}
	return lo + r.Intn(hi-lo+1)
}

// Bool returns a fair coin.
func (r *Rng) Bool() bool { return r.U64()&1 == 1 }

// Chance returns true with probability num/den.
func (r *Rng) Chance(num, den int) bool { return r.Intn(den) < num }

// Byte returns a random byte.
func (r *Rng) Byte() uint8 { return uint8(r.U64() >> 17) }

// U16 returns a random 16 bit value.
func (r *Rng) U16() uint16 { return uint16(r.U64() >> 23) }

// Pick returns one of xs.
func (r *Rng) Pick(xs ...int) int { return xs[r.Intn(len(xs))] }

// PickU16 returns one of xs.
func (r *Rng) PickU16(xs ...uint16) uint16 { return xs[r.Intn(len(xs))] }

// Bytes returns n random bytes.
func (r *Rng) Bytes(n int) []uint8 {
	b := make([]uint8, n)
	for i := range b {
		b[i] = r.Byte()
	}
	return b
}

// CornerU16 returns a 16 bit value biased to the address-space corners.
func (r *Rng) CornerU16() uint16 {
	switch r.Intn(8) {
	case 0:
		return r.PickU16(0x0000, 0x0001, 0xfffe, 0xffff)
	case 1:
		return r.PickU16(0x00ff, 0x0100, 0x7fff, 0x8000, 0xff00, 0xfffd, 0x0002)
	default:
		return r.U16()
	}
}

// Mix64 is a stateless hash step used for fingerprints and device data.
func Mix64(a, b uint64) uint64 {
	z := a ^ (b+0x9e3779b97f4a7c15)*0xbf58476d1ce4e5b9
	z = (z ^ (z >> 30)) * 0xbf58476d1ce4e5b9
	z = (z ^ (z >> 27)) * 0x94d049bb133111eb
	return z ^ (z >> 31)
}
