// Package gen generates the workloads: structured, terminating Z80 programs
// built from blocks (shared by C07 C08 C10 C13), and arbitrary byte strings.
package gen

import (
	"encoding/hex"

	"github.com/koron-go/z80/verifsim/world"
)

// CodeSeg is a run of instructions at an address; kept instruction by
// instruction so that the shrinker can replace one by NOPs of equal length
// (addresses of everything else stay valid).
type CodeSeg struct {
	Addr uint16   `json:"addr"`
	Ins  []string `json:"ins"` // hex, one entry per instruction
}

// Bytes flattens the segment.
func (c CodeSeg) Bytes() []uint8 {
	var out []uint8
	for _, s := range c.Ins {
		b, _ := hex.DecodeString(s)
		out = append(out, b...)
	}
	return out
}

// Seg converts to a plain byte segment.
func (c CodeSeg) Seg() world.Seg { return world.MkSeg(c.Addr, c.Bytes()) }

// Prog is a generated program.
type Prog struct {
	Code     []CodeSeg   `json:"code"`
	Data     []world.Seg `json:"data"`
	Regs     world.Regs  `json:"regs"`
	HaltAddr uint16      `json:"halt_addr"`
}

// Segs returns the whole image.
func (p *Prog) Segs() []world.Seg {
	var s []world.Seg
	s = append(s, p.Data...)
	for _, c := range p.Code {
		s = append(s, c.Seg())
	}
	return s
}

// Fixed memory map of structured programs.
const (
	Org       = 0x0100
	SubBase   = 0x1000
	SubStride = 0x0100
	DataBase  = 0x8000
	DataSize  = 0x0400
	StackLo   = 0xe000 // stack region [StackLo, StackHi)
	StackHi   = 0xf000
)

// Opts selects what the generator may emit.
type Opts struct {
	Transparent bool // register-transparent code only (C07): no LD A,R / LD R,A / LD I,A
	IO          bool // IN/OUT and block I/O
	Blocks      int  // number of top-level blocks
	MaxSubs     int
	EI          bool // programs may contain EI / DI sections
	StartEI     bool // first instruction (after LD SP) is EI
	// StackTop != 0: the stack starts there instead of somewhere in [StackLo+0x800, StackHi), e.g. at
	// 0x0001..0x0005 so that frames wrap from 0x0000 to 0xFFFF (nothing else lives at 0xF000..0xFFFF)
	StackTop uint16
}

type builder struct {
	r    *world.Rng
	o    Opts
	ins  []string
	addr uint16
	subs []uint16 // addresses of callable subroutines (already generated)
}

func (b *builder) emit(bs ...uint8) int {
	b.ins = append(b.ins, hex.EncodeToString(bs))
	b.addr += uint16(len(bs))
	return len(b.ins) - 1
}

func (b *builder) patch(i int, bs ...uint8) { b.ins[i] = hex.EncodeToString(bs) }

func (b *builder) dataAddr() uint16 {
	return DataBase + 0x90 + uint16(b.r.Intn(DataSize-0x120))
}

var (
	oneByteRegOps = func() []uint8 {
		var l []uint8
		l = append(l, 0x00, 0x04, 0x0c, 0x14, 0x1c, 0x24, 0x2c, 0x3c, 0x05, 0x0d, 0x15, 0x1d, 0x25, 0x2d, 0x3d,
			0x03, 0x13, 0x23, 0x0b, 0x1b, 0x2b, 0x07, 0x0f, 0x17, 0x1f, 0x27, 0x2f, 0x37, 0x3f, 0x08, 0xd9, 0xeb, 0x09, 0x19, 0x29, 0x39)
		for op := 0x40; op <= 0xbf; op++ {
			if op == 0x76 || op&7 == 6 || (op >= 0x70 && op <= 0x77) {
				continue
			}
			l = append(l, uint8(op))
		}
		return l
	}()
	ldRN   = []uint8{0x06, 0x0e, 0x16, 0x1e, 0x26, 0x2e, 0x3e}
	aluN   = []uint8{0xc6, 0xce, 0xd6, 0xde, 0xe6, 0xee, 0xf6, 0xfe}
	edReg  = []uint8{0x44, 0x4a, 0x5a, 0x6a, 0x7a, 0x42, 0x52, 0x62, 0x72, 0x57}
	xyReg  = []uint8{0x09, 0x19, 0x29, 0x39, 0x23, 0x2b, 0x24, 0x25, 0x2c, 0x2d, 0x44, 0x45, 0x4c, 0x4d, 0x54, 0x55, 0x5c, 0x5d, 0x60, 0x61, 0x62, 0x63, 0x65, 0x67, 0x68, 0x69, 0x6a, 0x6b, 0x6c, 0x6f, 0x7c, 0x7d, 0x84, 0x85, 0x8c, 0x8d, 0x94, 0x95, 0x9c, 0x9d, 0xa4, 0xa5, 0xac, 0xad, 0xb4, 0xb5, 0xbc, 0xbd}
	ccJP   = []uint8{0xc2, 0xca, 0xd2, 0xda, 0xe2, 0xea, 0xf2, 0xfa}
	ccCALL = []uint8{0xc4, 0xcc, 0xd4, 0xdc, 0xe4, 0xec, 0xf4, 0xfc}
	ccRET  = []uint8{0xc0, 0xc8, 0xd0, 0xd8, 0xe0, 0xe8, 0xf0, 0xf8}
	ccJR   = []uint8{0x20, 0x28, 0x30, 0x38}
)

// regOp emits one register-only instruction.
func (b *builder) regOp() {
	r := b.r
	switch x := r.Intn(100); {
	case x < 45:
		b.emit(oneByteRegOps[r.Intn(len(oneByteRegOps))])
	case x < 58:
		b.emit(ldRN[r.Intn(len(ldRN))], r.Byte())
	case x < 68:
		b.emit(aluN[r.Intn(len(aluN))], r.Byte())
	case x < 73:
		b.emit([]uint8{0x01, 0x11, 0x21}[r.Intn(3)], r.Byte(), r.Byte())
	case x < 83:
		op := r.Byte()
		if op&7 == 6 {
			op ^= 1
		}
		b.emit(0xcb, op)
	case x < 88:
		op := edReg[r.Intn(len(edReg))]
		b.emit(0xed, op)
	case x < 96:
		p := []uint8{0xdd, 0xfd}[r.Intn(2)]
		switch r.Intn(6) {
		case 0:
			b.emit(p, 0x21, r.Byte(), r.Byte())
		case 1:
			b.emit(p, []uint8{0x26, 0x2e}[r.Intn(2)], r.Byte())
		default:
			b.emit(p, xyReg[r.Intn(len(xyReg))])
		}
	default:
		if b.o.Transparent {
			b.emit(0x00)
		} else {
			switch r.Intn(3) {
			case 0:
				b.emit(0xed, 0x5f) // LD A,R
			case 1:
				b.emit(0xed, 0x4f) // LD R,A
			default:
				b.emit(0xed, 0x57) // LD A,I
			}
		}
	}
}

// memOp emits pointer set-up plus one memory instruction in the data region.
func (b *builder) memOp() {
	r := b.r
	a := b.dataAddr()
	lo, hi := uint8(a), uint8(a>>8)
	switch x := r.Intn(100); {
	case x < 30: // via HL
		b.emit(0x21, lo, hi)
		switch r.Intn(8) {
		case 0:
			b.emit([]uint8{0x46, 0x4e, 0x56, 0x5e, 0x66, 0x6e, 0x7e}[r.Intn(7)])
		case 1:
			b.emit([]uint8{0x70, 0x71, 0x72, 0x73, 0x74, 0x75, 0x77}[r.Intn(7)])
		case 2:
			b.emit(0x36, r.Byte())
		case 3:
			b.emit([]uint8{0x34, 0x35}[r.Intn(2)])
		case 4:
			b.emit(0x86 | uint8(r.Intn(8))<<3)
		case 5, 6:
			b.emit(0xcb, r.Byte()&0xf8|6)
		default:
			b.emit(0xed, []uint8{0x67, 0x6f}[r.Intn(2)])
		}
	case x < 60: // via IX/IY + d
		p := []uint8{0xdd, 0xfd}[r.Intn(2)]
		d := r.Byte()
		base := a - uint16(int16(int8(d)))
		b.emit(p, 0x21, uint8(base), uint8(base>>8))
		switch r.Intn(7) {
		case 0:
			b.emit(p, []uint8{0x46, 0x4e, 0x56, 0x5e, 0x66, 0x6e, 0x7e}[r.Intn(7)], d)
		case 1:
			b.emit(p, []uint8{0x70, 0x71, 0x72, 0x73, 0x74, 0x75, 0x77}[r.Intn(7)], d)
		case 2:
			b.emit(p, 0x36, d, r.Byte())
		case 3:
			b.emit(p, []uint8{0x34, 0x35}[r.Intn(2)], d)
		case 4:
			b.emit(p, 0x86|uint8(r.Intn(8))<<3, d)
		default:
			b.emit(p, 0xcb, d, r.Byte()&0xf8|6)
		}
	case x < 85: // direct (nn)
		switch r.Intn(8) {
		case 0:
			b.emit(0x3a, lo, hi)
		case 1:
			b.emit(0x32, lo, hi)
		case 2:
			b.emit(0x2a, lo, hi)
		case 3:
			b.emit(0x22, lo, hi)
		case 4:
			b.emit(0xed, []uint8{0x4b, 0x5b, 0x6b}[r.Intn(3)], lo, hi)
		case 5:
			b.emit(0xed, []uint8{0x43, 0x53, 0x63, 0x73}[r.Intn(4)], lo, hi)
		case 6:
			b.emit([]uint8{0xdd, 0xfd}[r.Intn(2)], 0x2a, lo, hi)
		default:
			b.emit([]uint8{0xdd, 0xfd}[r.Intn(2)], 0x22, lo, hi)
		}
	default: // via BC / DE
		if r.Bool() {
			b.emit(0x01, lo, hi)
			b.emit([]uint8{0x02, 0x0a}[r.Intn(2)])
		} else {
			b.emit(0x11, lo, hi)
			b.emit([]uint8{0x12, 0x1a}[r.Intn(2)])
		}
	}
}

func (b *builder) blockOp() {
	r := b.r
	n := uint8(r.Range(1, 6))
	src := DataBase + 0x40 + uint16(r.Intn(0x180))
	dst := DataBase + 0x240 + uint16(r.Intn(0x180))
	if r.Chance(1, 4) { // overlapping ranges
		dst = src + uint16(r.Range(0, 6)) - 3
	}
	switch x := r.Intn(100); {
	case x < 40 || !b.o.IO && x >= 70:
		b.emit(0x21, uint8(src), uint8(src>>8))
		b.emit(0x11, uint8(dst), uint8(dst>>8))
		b.emit(0x01, n, 0)
		b.emit(0xed, []uint8{0xa0, 0xa8, 0xb0, 0xb8, 0xb0, 0xb8}[r.Intn(6)])
	case x < 70:
		b.emit(0x3e, r.Byte()&0x0f) // small alphabet so that searches do find
		b.emit(0x21, uint8(src), uint8(src>>8))
		b.emit(0x01, n, 0)
		b.emit(0xed, []uint8{0xa1, 0xa9, 0xb1, 0xb9, 0xb1, 0xb9}[r.Intn(6)])
	default:
		b.emit(0x21, uint8(dst), uint8(dst>>8))
		b.emit(0x01, r.Byte(), n) // B=n, C=port
		b.emit(0xed, []uint8{0xa2, 0xaa, 0xb2, 0xba, 0xa3, 0xab, 0xb3, 0xbb, 0xb2, 0xb3}[r.Intn(10)])
	}
}

func (b *builder) ioOp() {
	r := b.r
	switch r.Intn(4) {
	case 0:
		b.emit(0xdb, r.Byte())
	case 1:
		b.emit(0xd3, r.Byte())
	case 2:
		b.emit(0xed, 0x40|[]uint8{0, 1, 2, 3, 4, 5, 7}[r.Intn(7)]<<3)
	default:
		b.emit(0xed, 0x41|[]uint8{0, 1, 2, 3, 4, 5, 7}[r.Intn(7)]<<3)
	}
}

func (b *builder) simple() {
	switch x := b.r.Intn(100); {
	case x < 60:
		b.regOp()
	case x < 90:
		b.memOp()
	default:
		if b.o.IO {
			b.ioOp()
		} else {
			b.regOp()
		}
	}
}

// block emits one block; depth limits nesting.
func (b *builder) block(depth int) {
	r := b.r
	x := r.Intn(100)
	if depth >= 2 && x >= 45 && x < 88 {
		x = r.Intn(45)
	}
	switch {
	case x < 25:
		for n := r.Range(1, 4); n > 0; n-- {
			b.regOp()
		}
	case x < 40:
		b.memOp()
	case x < 45:
		if b.o.IO {
			b.ioOp()
		} else {
			b.regOp()
		}
	case x < 55: // PUSH .. POP
		push := [][]uint8{{0xc5}, {0xd5}, {0xe5}, {0xf5}, {0xdd, 0xe5}, {0xfd, 0xe5}}
		pop := [][]uint8{{0xc1}, {0xd1}, {0xe1}, {0xf1}, {0xdd, 0xe1}, {0xfd, 0xe1}}
		b.emit(push[r.Intn(6)]...)
		for n := r.Range(0, 2); n > 0; n-- {
			b.block(depth + 1)
		}
		if r.Chance(1, 4) {
			b.emit([][]uint8{{0xe3}, {0xdd, 0xe3}, {0xfd, 0xe3}}[r.Intn(3)]...)
		}
		b.emit(pop[r.Intn(6)]...)
	case x < 65: // CALL
		if len(b.subs) == 0 {
			b.regOp()
			return
		}
		s := b.subs[r.Intn(len(b.subs))]
		if r.Bool() {
			b.emit(0xcd, uint8(s), uint8(s>>8))
		} else {
			b.emit(ccCALL[r.Intn(8)], uint8(s), uint8(s>>8))
		}
	case x < 73: // DJNZ loop
		b.emit(0x06, uint8(r.Range(1, 4)))
		top := b.addr
		b.emit(0xc5)
		for n := r.Range(1, 3); n > 0; n-- {
			b.block(depth + 1)
		}
		b.emit(0xc1)
		off := int(top) - int(b.addr+2)
		if off < -128 {
			// body too long for DJNZ: close the loop with DEC B / JP NZ
			b.emit(0x05)
			b.emit(0xc2, uint8(top), uint8(top>>8))
			return
		}
		b.emit(0x10, uint8(int8(off)))
	case x < 82: // forward conditional / unconditional jump over a few blocks
		kind := r.Intn(4)
		var at int
		switch kind {
		case 0:
			at = b.emit(ccJR[r.Intn(4)], 0)
		case 1:
			at = b.emit(0x18, 0)
		case 2:
			at = b.emit(ccJP[r.Intn(8)], 0, 0)
		default:
			at = b.emit(0xc3, 0, 0)
		}
		start := b.addr
		for n := r.Range(1, 3); n > 0; n-- {
			b.simple()
		}
		ln := b.addr - start
		op, _ := hex.DecodeString(b.ins[at])
		if kind < 2 {
			b.patch(at, op[0], uint8(ln))
		} else {
			b.patch(at, op[0], uint8(b.addr), uint8(b.addr>>8))
		}
	case x < 88:
		b.blockOp()
	case x < 94:
		if b.o.EI {
			b.emit(0xf3)
			for n := r.Range(1, 4); n > 0; n-- {
				if r.Chance(1, 3) {
					b.block(depth + 1) // loops, calls, block instructions inside the disabled section
				} else {
					b.simple()
				}
			}
			b.emit(0xfb)
		} else {
			b.regOp()
		}
	default:
		if b.o.EI && r.Chance(1, 2) {
			b.emit([]uint8{0xfb, 0xf3}[r.Intn(4)/3])
		} else {
			b.memOp()
		}
	}
}

// Structured draws a terminating program ending in HALT.
func Structured(r *world.Rng, o Opts) *Prog {
	p := &Prog{}
	// data region
	p.Data = append(p.Data, world.MkSeg(DataBase, func() []uint8 {
		d := r.Bytes(DataSize)
		for i := range d { // small alphabet in part of the region so CPIR finds matches
			if i < 0x200 && r.Chance(1, 2) {
				d[i] &= 0x0f
			}
		}
		return d
	}()))
	// subroutines: sub i may call subs with larger index only
	nsub := r.Range(0, o.MaxSubs)
	subAddrs := make([]uint16, nsub)
	subBase := uint16(r.Pick(SubBase, SubBase, 0x1800, 0x2800, 0x3800))
	for i := range subAddrs {
		subAddrs[i] = subBase + uint16(i)*SubStride
	}
	subSegs := make([]CodeSeg, nsub)
	for i := nsub - 1; i >= 0; i-- {
		sb := &builder{r: r, o: o, addr: subAddrs[i], subs: subAddrs[i+1:]}
		for n := r.Range(1, 3); n > 0 && sb.addr-subAddrs[i] < SubStride-70; n-- {
			sb.block(1)
		}
		if r.Chance(1, 3) {
			sb.emit(ccRET[r.Intn(8)])
			sb.regOp()
		}
		sb.emit(0xc9)
		subSegs[i] = CodeSeg{subAddrs[i], sb.ins}
	}
	mb := &builder{r: r, o: o, addr: Org, subs: subAddrs}
	if r.Chance(2, 3) {
		sp := uint16(r.Range(StackLo+0x800, StackHi))
		if o.StackTop != 0 {
			sp = o.StackTop
		}
		mb.emit(0x31, uint8(sp), uint8(sp>>8))
	}
	if o.StartEI {
		mb.emit(0xfb)
	}
	for n := 0; n < o.Blocks && mb.addr < SubBase-0x100; n++ {
		mb.block(0)
	}
	p.HaltAddr = mb.addr
	mb.emit(0x76)
	p.Code = append([]CodeSeg{{Org, mb.ins}}, subSegs...)
	regs := world.RandRegs(r)
	regs.PC = Org
	regs.SP = uint16(r.Range(StackLo+0x800, StackHi))
	if o.StackTop != 0 {
		regs.SP = o.StackTop
	}
	regs.IFF1, regs.IFF2 = false, false
	p.Regs = regs
	return p
}

// NopIns returns NOPs of the same length as the hex-encoded instruction.
func NopIns(s string) string {
	out := ""
	for i := 0; i < len(s)/2; i++ {
		out += "00"
	}
	return out
}
