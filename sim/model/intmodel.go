// Package model holds the small executable reference models used as oracles.
package model

import "fmt"

// Req is the abstract pending request.
type Req struct {
	NMI  bool
	Data []uint8
}

// IntState is the abstract interrupt-controller state of DESIGN.md appendix C.
// It is written from the text of property C06, not from the implementation.
type IntState struct {
	IFF1, IFF2 bool
	IM         int
	I, A       uint8
	PC, SP     uint16
	JustEI     bool
	NRETN      int
	NRETI      int
	Mem        *SparseMem

	// What the last transition was, for reporting and for the caller's
	// bus-history checks.
	Last IntStepKind
	// PushFree is set when the transition lowered SP by two without the model
	// constraining the stored word (mode 0: C07's subject).
	PushFree bool
	blockAlt bool
	lateEI   bool // IFF1 reads false and becomes true when the next instruction has completed (see Next)
	Consumed bool // the pending request was consumed by this Step
}

// IntStepKind classifies a transition.
type IntStepKind int

// Transition kinds.
const (
	KExec IntStepKind = iota
	KAcceptNMI
	KAcceptIM0
	KAcceptIM1
	KAcceptIM2
	KUnknown // the model does not know the opcode at PC: stop comparing
)

func (k IntStepKind) String() string {
	return [...]string{"exec", "accept-NMI", "accept-IM0", "accept-IM1", "accept-IM2", "unknown-opcode"}[k]
}

// SparseMem is an immutable base image plus the model's own writes.
type SparseMem struct {
	Base *[65536]uint8
	W    map[uint16]uint8
}

// Get reads a byte.
func (m *SparseMem) Get(a uint16) uint8 {
	if v, ok := m.W[a]; ok {
		return v
	}
	return m.Base[a]
}

// Set writes a byte.
func (m *SparseMem) Set(a uint16, v uint8) { m.W[a] = v }

func (m *SparseMem) clone() *SparseMem {
	n := &SparseMem{Base: m.Base, W: make(map[uint16]uint8, len(m.W)+2)}
	for k, v := range m.W {
		n.W[k] = v
	}
	return n
}

func (s *IntState) push(v uint16) {
	s.SP--
	s.Mem.Set(s.SP, uint8(v>>8))
	s.SP--
	s.Mem.Set(s.SP, uint8(v))
}

func (s *IntState) pop() uint16 {
	l := s.Mem.Get(s.SP)
	s.SP++
	h := s.Mem.Get(s.SP)
	s.SP++
	return uint16(h)<<8 | uint16(l)
}

func (s *IntState) word(a uint16) uint16 {
	return uint16(s.Mem.Get(a+1))<<8 | uint16(s.Mem.Get(a))
}

// clone copies the state (sharing nothing: memory is copied by the caller
// only when a fork happens, see Next).
func (s *IntState) clone() *IntState {
	n := *s
	n.Mem = s.Mem.clone()
	return &n
}

// Next returns the set of states the property allows after one Step taken
// with request req in the slot (nil: none). At most two states: the fork is
// the "one instruction after the enabling EI" clause.
func (s *IntState) Next(req *Req) []*IntState {
	var out []*IntState
	if s.lateEI {
		out = s.nextLate(req)
	} else {
		out = s.next0(req)
	}
	// "EI sets both flip-flops ... taken once IFF1 is set again (at the next Step boundary or, as on silicon,
	// one instruction after the enabling EI)": an implementation of the delay may keep IFF1 reading false
	// until the instruction after EI has completed (IFF2 set at once). Every state that has just executed
	// EI gets a sibling in which IFF1 is still to come.
	for _, o := range append([]*IntState(nil), out...) {
		if o.Last == KExec && o.JustEI && o.IFF1 && o.IFF2 {
			m := o.clone()
			m.IFF1, m.lateEI = false, true
			out = append(out, m)
		}
	}
	// a repeating search (CPIR / CPDR) either repeats or is finished: the model does not follow BC, HL and
	// A, so a Step that executed one has two candidates
	n := len(out)
	for i := 0; i < n; i++ {
		if out[i].blockAlt {
			out[i].blockAlt = false
			m := out[i].clone()
			m.PC += 2
			out = append(out, m)
		}
	}
	return out
}

// nextLate: IFF1 reads false, IFF2 true, and IFF1 becomes true when the instruction now following has
// completed (unless that instruction says otherwise). A maskable request is refused in this Step.
func (s *IntState) nextLate(req *Req) []*IntState {
	if req != nil && req.NMI {
		var out []*IntState
		for _, iff2 := range []bool{true, false} { // what the NMI saves: "about to be enabled", or what IFF1 reads
			n := s.clone()
			n.lateEI, n.JustEI = false, false
			n.push(n.PC)
			n.PC = 0x0066
			n.IFF2, n.IFF1 = iff2, false
			n.Last, n.Consumed, n.PushFree = KAcceptNMI, true, false
			out = append(out, n)
		}
		return out
	}
	t := s.clone()
	t.lateEI, t.JustEI, t.IFF1 = false, false, true
	out := t.next0(nil)
	for _, o := range out {
		o.Consumed = false
	}
	return out
}

func (s *IntState) next0(req *Req) []*IntState {
	if req != nil && req.NMI {
		n := s.clone()
		n.JustEI = false
		n.push(n.PC)
		n.PC = 0x0066
		n.IFF2 = n.IFF1
		n.IFF1 = false
		n.Last, n.Consumed, n.PushFree = KAcceptNMI, true, false
		return []*IntState{n}
	}
	if req != nil && s.IFF1 {
		var out []*IntState
		if s.JustEI {
			e := s.clone()
			e.exec()
			out = append(out, e)
			if op := s.Mem.Get(s.PC); (op == 0xdd || op == 0xfd) && s.Mem.Get(s.PC+1) == 0x00 {
				e3 := s.clone()
				e3.Last, e3.Consumed, e3.PushFree, e3.JustEI = KExec, false, false, false
				e3.PC++
				out = append(out, e3)
			}
			if s.Mem.Get(s.PC) == 0xed && s.Mem.Get(s.PC+1) == 0x4d && e.IFF1 != e.IFF2 {
				e2 := e.clone()
				e2.IFF1 = e2.IFF2
				out = append(out, e2)
			}
		}
		n := s.clone()
		n.JustEI = false
		n.IFF1, n.IFF2 = false, false
		n.Consumed, n.PushFree = true, false
		switch s.IM {
		case 1:
			n.push(n.PC)
			n.PC = 0x0038
			n.Last = KAcceptIM1
		case 2:
			n.push(n.PC)
			n.PC = n.word(uint16(n.I)<<8 | uint16(req.Data[0]&0xfe))
			n.Last = KAcceptIM2
		case 0:
			n.Last = KAcceptIM0
			n.PushFree = true
			d := req.Data
			// (bytes the device drives after the end of the supplied instruction are padding)
			switch {
			case len(d) >= 1 && d[0]&0xc7 == 0xc7:
				n.SP -= 2
				n.PC = uint16(d[0] & 0x38)
			case len(d) >= 3 && d[0] == 0xcd:
				n.SP -= 2
				n.PC = uint16(d[2])<<8 | uint16(d[1])
			case len(d) >= 1 && d[0] == 0xc9:
				// RET supplied by the device: pops the return address from the stack in memory
				n.PushFree = false
				n.PC = n.pop()
			case len(d) >= 3 && d[0] == 0xc3:
				// JP nn supplied by the device: no push at all
				n.PushFree = false
				n.PC = uint16(d[2])<<8 | uint16(d[1])
			case len(d) >= 2 && d[0] == 0xed && (d[1] == 0x4d || d[1] == 0x45):
				// RETI / RETN supplied by the device: an executed RETI/RETN like any other - pops, notifies
				// once (IFF1 := IFF2 of RETN and the clearing of both by the acceptance give false either way)
				n.PushFree = false
				n.PC = n.pop()
				if d[1] == 0x4d {
					n.NRETI++
				} else {
					n.NRETN++
				}
			default:
				n.Last = KUnknown
			}
		default:
			n.Last = KUnknown
		}
		return append(out, n)
	}
	n := s.clone()
	n.exec()
	out := []*IntState{n}
	if op := s.Mem.Get(s.PC); (op == 0xdd || op == 0xfd) && s.Mem.Get(s.PC+1) == 0x00 {
		// a dangling index prefix in front of an opcode it does not modify: "consumed, execution continues with
		// the next byte" - as one Step of two bytes, or the prefix alone with the NOP decoded by the next Step
		m := s.clone()
		m.Last, m.Consumed, m.PushFree, m.JustEI = KExec, false, false, false
		m.PC++
		out = append(out, m)
	}
	if s.Mem.Get(s.PC) == 0xed && s.Mem.Get(s.PC+1) == 0x4d && n.IFF1 != n.IFF2 {
		// the statement says what RETN does to IFF1 and nothing about RETI; on silicon RETI copies IFF2
		// as well: both are allowed
		m := n.clone()
		m.IFF1 = m.IFF2
		out = append(out, m)
	}
	return out
}

// exec executes one instruction of the mini-ISA at PC.
func (s *IntState) exec() {
	s.Last, s.Consumed, s.PushFree = KExec, false, false
	ei := false
	op := s.Mem.Get(s.PC)
	switch {
	case op == 0x00:
		s.PC++
	case (op == 0xdd || op == 0xfd) && s.Mem.Get(s.PC+1) == 0x00:
		s.PC += 2
	case op == 0xfb:
		s.IFF1, s.IFF2 = true, true
		ei = true
		s.PC++
	case op == 0xf3:
		s.IFF1, s.IFF2 = false, false
		s.PC++
	case op == 0x76:
		// PC stays on the HALT opcode.
	case op == 0x3e:
		s.A = s.Mem.Get(s.PC + 1)
		s.PC += 2
	case op == 0xc9:
		s.PC++
		s.PC = s.pop()
	case op == 0xc3:
		s.PC = s.word(s.PC + 1)
	case op&0xc7 == 0xc7:
		s.PC++
		s.push(s.PC)
		s.PC = uint16(op & 0x38)
	case op == 0xcd:
		t := s.word(s.PC + 1)
		s.PC += 3
		s.push(s.PC)
		s.PC = t
	case op == 0xed:
		switch s.Mem.Get(s.PC + 1) {
		case 0x46:
			s.IM = 0
			s.PC += 2
		case 0x56:
			s.IM = 1
			s.PC += 2
		case 0x5e:
			s.IM = 2
			s.PC += 2
		case 0x47:
			s.I = s.A
			s.PC += 2
		case 0x57:
			s.A = s.I // LD A,I (its flags are compared through the refusal twin only)
			s.PC += 2
		case 0x45:
			s.PC += 2
			s.PC = s.pop()
			s.IFF1 = s.IFF2
			s.NRETN++
		case 0x4d:
			s.PC += 2
			s.PC = s.pop()
			s.NRETI++
		case 0xb1, 0xb9:
			s.blockAlt = true // PC stays (repeats); Next adds the finished alternative
		default:
			s.Last = KUnknown
		}
	default:
		s.Last = KUnknown
	}
	s.JustEI = ei
}

// Diff compares the observable part with values taken from the real CPU.
func (s *IntState) Diff(iff1, iff2 bool, im int, i uint8, pc, sp uint16, nretn, nreti int) string {
	out := ""
	add := func(n string, want, got interface{}) {
		if want != got {
			out += fmt.Sprintf(" %s: model=%v cpu=%v", n, want, got)
		}
	}
	add("IFF1", s.IFF1, iff1)
	add("IFF2", s.IFF2, iff2)
	add("IM", s.IM, im)
	add("I", s.I, i)
	add("PC", fmt.Sprintf("%04x", s.PC), fmt.Sprintf("%04x", pc))
	add("SP", fmt.Sprintf("%04x", s.SP), fmt.Sprintf("%04x", sp))
	add("RETN-notifications", s.NRETN, nretn)
	add("RETI-notifications", s.NRETI, nreti)
	return out
}
