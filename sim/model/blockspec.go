package model

// Whole-operation specification of the Z80 block instructions (property C09),
// written as direct loops over a byte array and a port stream. It knows
// nothing about Steps, PC rewinding or the implementation's flag helpers.

// BlockIn is the state a block instruction starts from.
type BlockIn struct {
	Op         uint8 // second opcode byte after ED
	PC         uint16
	A, F       uint8
	BC, DE, HL uint16
	Mem        *[65536]uint8             // modified in place
	PortIn     func(port uint8) uint8    // next byte of the input stream
	PortOut    func(port uint8, v uint8) // records an output
	MaxElems   int                       // stop early (0 = run to completion)
	// Len > 0: the memory is shorter than its address range (the library's DumbMemory): addresses
	// >= Len read as 0 and ignore writes
	Len    int
	OnElem func(i int, r, w int32) // optional: element i read address r / wrote address w (-1: none)
	// AfterElem (optional): the flag register after element i
	AfterElem func(i int, f uint8)
}

// BlockOut is the specified outcome.
type BlockOut struct {
	BC, DE, HL uint16
	FMask      uint8 // documented flag bits
	FVal       uint8 // their values (under FMask)
	Elems      int   // elements performed = Steps the emulator must need
	Done       bool  // operation finished: PC must be PC+2; otherwise PC must still be on the instruction
	SelfMod    bool  // stopped because the copy overwrote the instruction's own bytes
}

// IsBlockOp reports whether ED op is one of the 16 block instructions.
func IsBlockOp(op uint8) bool { return op&0xe4 == 0xa0 }

// BlockSpec runs the whole operation.
func BlockSpec(in BlockIn) BlockOut {
	op := in.Op
	repeat := op&0x10 != 0
	down := op&0x08 != 0
	kind := op & 3 // 0 LD, 1 CP, 2 IN, 3 OUT
	o := BlockOut{BC: in.BC, DE: in.DE, HL: in.HL}
	step := uint16(1)
	if down {
		step = 0xffff
	}
	f := in.F
	rd := func(a uint16) uint8 {
		if in.Len > 0 && int(a) >= in.Len {
			return 0
		}
		return in.Mem[a]
	}
	wr := func(a uint16, v uint8) {
		if in.Len > 0 && int(a) >= in.Len {
			return
		}
		in.Mem[a] = v
	}
	for {
		// hardware re-decodes the instruction on every repetition
		if rd(in.PC) != 0xed || rd(in.PC+1) != op {
			o.SelfMod = true
			break
		}
		if in.MaxElems > 0 && o.Elems >= in.MaxElems {
			break
		}
		finished := false
		switch kind {
		case 0:
			v := rd(o.HL)
			wr(o.DE, v)
			if in.OnElem != nil {
				in.OnElem(o.Elems, int32(o.HL), int32(o.DE))
			}
			o.HL += step
			o.DE += step
			o.BC--
			f &^= 0x10 | 0x02 | 0x04
			if o.BC != 0 {
				f |= 0x04
			}
			finished = o.BC == 0
		case 1:
			v := rd(o.HL)
			if in.OnElem != nil {
				in.OnElem(o.Elems, int32(o.HL), -1)
			}
			r := in.A - v
			o.HL += step
			o.BC--
			f &^= 0x80 | 0x40 | 0x10 | 0x04
			f |= 0x02
			f |= r & 0x80
			if r == 0 {
				f |= 0x40
			}
			if in.A&0x0f < v&0x0f {
				f |= 0x10
			}
			if o.BC != 0 {
				f |= 0x04
			}
			finished = o.BC == 0 || r == 0
		case 2:
			port := uint8(o.BC)
			v := in.PortIn(port)
			wr(o.HL, v)
			if in.OnElem != nil {
				in.OnElem(o.Elems, -1, int32(o.HL))
			}
			o.HL += step
			o.BC -= 0x100
			f |= 0x02
			f &^= 0x40
			if o.BC>>8 == 0 {
				f |= 0x40
			}
			finished = o.BC>>8 == 0
		case 3:
			v := rd(o.HL)
			if in.OnElem != nil {
				in.OnElem(o.Elems, int32(o.HL), -1)
			}
			in.PortOut(uint8(o.BC), v)
			o.HL += step
			o.BC -= 0x100
			f |= 0x02
			f &^= 0x40
			if o.BC>>8 == 0 {
				f |= 0x40
			}
			finished = o.BC>>8 == 0
		}
		if in.AfterElem != nil {
			in.AfterElem(o.Elems, f)
		}
		o.Elems++
		if !repeat || finished {
			o.Done = true
			break
		}
	}
	switch kind {
	case 0, 1:
		o.FMask = 0xd7
	default:
		o.FMask = 0x40 // Z only: N is documented as set, real chips make it bit 7 of the data
	}
	o.FVal = f & o.FMask
	return o
}
