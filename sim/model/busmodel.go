package model

// Bus-level reference model (property C05): for one instruction at PC, the
// history a memory-mapped / port-mapped device must observe during the Step.
// Organised by the opcode's octal fields (x, y, z, p, q) from the Z80
// documentation's M-cycle tables - deliberately not by reading the
// implementation's handlers. It computes values only where they appear on the
// bus (RMW results, pushed words, OUT data); it computes no flag and no
// register result and cannot serve as an ISA model.

// PreState is the part of the CPU state the bus history depends on.
type PreState struct {
	A, F, B, C, D, E, H, L uint8
	IX, IY, SP, PC         uint16
}

// AV is an (address, value) pair.
type AV struct {
	Addr uint16
	Val  uint8
	// FromPort: the value is the byte returned by the port read of this Step
	// (INI-type instructions); Val is then ignored.
	FromPort bool
}

// PortOp is one expected port access.
type PortOp struct {
	Out  bool
	Port uint8
	Val  uint8 // for Out
}

// InDest says where the byte returned by an IN must end up.
type InDest int

// IN destinations.
const (
	InNone InDest = iota
	InA
	InB
	InC
	InD
	InE
	InH
	InL
	InMem // written to memory (INI family): checked through Writes[].FromPort
)

// BusExp is the expected history of one Step.
type BusExp struct {
	Known  bool
	Len    int      // instruction bytes, fetched once each from PC.. (mod 65536)
	Reads  []uint16 // data reads (multiset)
	Writes []AV     // data writes (multiset of pairs)
	Ports  []PortOp // ordered
	RMW    bool     // every write address is read before it is written
	In     InDest
	Class  string
}

func hi(v uint16) uint8 { return uint8(v >> 8) }
func lo(v uint16) uint8 { return uint8(v) }

func (s *PreState) hl() uint16 { return uint16(s.H)<<8 | uint16(s.L) }
func (s *PreState) bc() uint16 { return uint16(s.B)<<8 | uint16(s.C) }
func (s *PreState) de() uint16 { return uint16(s.D)<<8 | uint16(s.E) }

// r8 returns register number i (B C D E H L - A); i==6 is not a register.
func (s *PreState) r8(i uint8) uint8 {
	switch i {
	case 0:
		return s.B
	case 1:
		return s.C
	case 2:
		return s.D
	case 3:
		return s.E
	case 4:
		return s.H
	case 5:
		return s.L
	default:
		return s.A
	}
}

// cond evaluates condition y on the pre-Step flags.
func (s *PreState) cond(y uint8) bool {
	var bit uint8
	switch y >> 1 {
	case 0:
		bit = 0x40 // Z
	case 1:
		bit = 0x01 // C
	case 2:
		bit = 0x04 // P/V
	default:
		bit = 0x80 // S
	}
	set := s.F&bit != 0
	if y&1 == 0 {
		return !set
	}
	return set
}

func rot(y, v, f uint8) uint8 {
	c := f & 1
	switch y {
	case 0:
		return v<<1 | v>>7
	case 1:
		return v>>1 | v<<7
	case 2:
		return v<<1 | c
	case 3:
		return v>>1 | c<<7
	case 4:
		return v << 1
	case 5:
		return v>>1 | v&0x80
	case 6:
		return v<<1 | 1
	default:
		return v >> 1
	}
}

func cbMem(e *BusExp, op uint8, a uint16, v uint8, f uint8) {
	x, y := op>>6, (op>>3)&7
	e.Reads = append(e.Reads, a)
	switch x {
	case 0:
		e.Writes = append(e.Writes, AV{Addr: a, Val: rot(y, v, f)})
		e.RMW = true
		e.Class = "rot (m)"
	case 1:
		e.Class = "BIT b,(m)"
	case 2:
		e.Writes = append(e.Writes, AV{Addr: a, Val: v &^ (1 << y)})
		e.RMW = true
		e.Class = "RES b,(m)"
	case 3:
		e.Writes = append(e.Writes, AV{Addr: a, Val: v | 1<<y})
		e.RMW = true
		e.Class = "SET b,(m)"
	}
}

func push(e *BusExp, sp uint16, v uint16) {
	e.Writes = append(e.Writes, AV{Addr: sp - 1, Val: hi(v)}, AV{Addr: sp - 2, Val: lo(v)})
}

func pop(e *BusExp, sp uint16) { e.Reads = append(e.Reads, sp, sp+1) }

// BusExpect returns the expected history of the instruction at s.PC. peek
// reads memory without side effects (pre-Step contents).
func BusExpect(s PreState, peek func(uint16) uint8) BusExp {
	pc := s.PC
	op := peek(pc)
	switch op {
	case 0xcb:
		return expCB(s, peek)
	case 0xed:
		return expED(s, peek)
	case 0xdd:
		return expXY(s, peek, s.IX)
	case 0xfd:
		return expXY(s, peek, s.IY)
	}
	return expMain(s, peek, op, pc+1, 1, s.hl(), false, 0)
}

// expMain handles the unprefixed table; with xy set it handles the DD/FD
// variants of the same opcodes (ptr = IX/IY, displacement read at opnd).
func expMain(s PreState, peek func(uint16) uint8, op uint8, opnd uint16, pre int, ptr uint16, xy bool, _ int) BusExp {
	e := BusExp{Known: true, Len: pre}
	x, y, z := op>>6, (op>>3)&7, op&7
	p, q := y>>1, y&1
	// effective address of the "(HL)" operand
	memAddr := func() uint16 {
		if !xy {
			return ptr
		}
		e.Len++
		d := peek(opnd)
		opnd++
		return ptr + uint16(int16(int8(d)))
	}
	imm8 := func() uint8 { e.Len++; v := peek(opnd); opnd++; return v }
	imm16 := func() uint16 {
		e.Len += 2
		v := uint16(peek(opnd)) | uint16(peek(opnd+1))<<8
		opnd += 2
		return v
	}
	// register value with H/L -> XYH/XYL substitution for DD/FD register forms
	reg := func(i uint8) uint8 {
		if xy && i == 4 {
			return hi(ptr)
		}
		if xy && i == 5 {
			return lo(ptr)
		}
		return s.r8(i)
	}
	_ = reg
	ret := func() uint16 { return s.PC + uint16(e.Len) }

	switch x {
	case 0:
		switch z {
		case 0:
			if xy {
				return BusExp{}
			}
			if y >= 2 {
				imm8()
			}
			e.Class = []string{"NOP", "EX AF,AF'", "DJNZ", "JR", "JR cc", "JR cc", "JR cc", "JR cc"}[y]
		case 1:
			if q == 0 {
				if xy && p != 2 {
					return BusExp{}
				}
				imm16()
				e.Class = "LD rp,nn"
			} else {
				e.Class = "ADD HL,rp"
			}
		case 2:
			if xy && p != 2 {
				return BusExp{}
			}
			switch {
			case q == 0 && p == 0:
				e.Writes = append(e.Writes, AV{Addr: s.bc(), Val: s.A})
				e.Class = "LD (BC),A"
			case q == 0 && p == 1:
				e.Writes = append(e.Writes, AV{Addr: s.de(), Val: s.A})
				e.Class = "LD (DE),A"
			case q == 0 && p == 2:
				nn := imm16()
				e.Writes = append(e.Writes, AV{Addr: nn, Val: lo(ptr)}, AV{Addr: nn + 1, Val: hi(ptr)})
				e.Class = "LD (nn),HL"
			case q == 0 && p == 3:
				nn := imm16()
				e.Writes = append(e.Writes, AV{Addr: nn, Val: s.A})
				e.Class = "LD (nn),A"
			case q == 1 && p == 0:
				e.Reads = append(e.Reads, s.bc())
				e.Class = "LD A,(BC)"
			case q == 1 && p == 1:
				e.Reads = append(e.Reads, s.de())
				e.Class = "LD A,(DE)"
			case q == 1 && p == 2:
				nn := imm16()
				e.Reads = append(e.Reads, nn, nn+1)
				e.Class = "LD HL,(nn)"
			default:
				nn := imm16()
				e.Reads = append(e.Reads, nn)
				e.Class = "LD A,(nn)"
			}
		case 3:
			if xy && p != 2 {
				return BusExp{}
			}
			e.Class = "INC/DEC rp"
		case 4, 5:
			if xy && y != 4 && y != 5 && y != 6 {
				return BusExp{}
			}
			if y == 6 {
				a := memAddr()
				v := peek(a)
				e.Reads = append(e.Reads, a)
				if z == 4 {
					v++
				} else {
					v--
				}
				e.Writes = append(e.Writes, AV{Addr: a, Val: v})
				e.RMW = true
				e.Class = "INC/DEC (m)"
			} else {
				e.Class = "INC/DEC r"
			}
		case 6:
			if xy && y != 4 && y != 5 && y != 6 {
				return BusExp{}
			}
			if y == 6 {
				a := memAddr()
				n := imm8()
				e.Writes = append(e.Writes, AV{Addr: a, Val: n})
				e.Class = "LD (m),n"
			} else {
				imm8()
				e.Class = "LD r,n"
			}
		case 7:
			if xy {
				return BusExp{}
			}
			e.Class = "RLCA..CCF"
		}
	case 1:
		switch {
		case y == 6 && z == 6:
			if xy {
				return BusExp{}
			}
			e.Class = "HALT"
		case y == 6:
			a := memAddr()
			e.Writes = append(e.Writes, AV{Addr: a, Val: s.r8(z)}) // plain H/L even after DD/FD
			e.Class = "LD (m),r"
		case z == 6:
			a := memAddr()
			e.Reads = append(e.Reads, a)
			e.Class = "LD r,(m)"
		default:
			e.Class = "LD r,r'"
		}
	case 2:
		if z == 6 {
			a := memAddr()
			e.Reads = append(e.Reads, a)
			e.Class = "ALU A,(m)"
		} else {
			e.Class = "ALU A,r"
		}
	case 3:
		switch z {
		case 0:
			if xy {
				return BusExp{}
			}
			if s.cond(y) {
				pop(&e, s.SP)
			}
			e.Class = "RET cc"
		case 1:
			if q == 0 {
				if xy && p != 2 {
					return BusExp{}
				}
				pop(&e, s.SP)
				e.Class = "POP"
			} else {
				if xy && p != 2 && p != 3 {
					return BusExp{}
				}
				if p == 0 {
					pop(&e, s.SP)
				}
				e.Class = []string{"RET", "EXX", "JP (HL)", "LD SP,HL"}[p]
			}
		case 2:
			if xy {
				return BusExp{}
			}
			imm16()
			e.Class = "JP cc,nn"
		case 3:
			if xy && y != 4 {
				return BusExp{}
			}
			switch y {
			case 0:
				imm16()
				e.Class = "JP nn"
			case 2:
				n := imm8()
				e.Ports = append(e.Ports, PortOp{Out: true, Port: n, Val: s.A})
				e.Class = "OUT (n),A"
			case 3:
				n := imm8()
				e.Ports = append(e.Ports, PortOp{Port: n})
				e.In = InA
				e.Class = "IN A,(n)"
			case 4:
				e.Reads = append(e.Reads, s.SP, s.SP+1)
				e.Writes = append(e.Writes, AV{Addr: s.SP, Val: lo(ptr)}, AV{Addr: s.SP + 1, Val: hi(ptr)})
				e.RMW = true
				e.Class = "EX (SP),HL"
			case 5:
				e.Class = "EX DE,HL"
			case 6:
				e.Class = "DI"
			case 7:
				e.Class = "EI"
			default:
				return BusExp{} // CB handled elsewhere
			}
		case 4:
			if xy {
				return BusExp{}
			}
			imm16()
			if s.cond(y) {
				push(&e, s.SP, ret())
			}
			e.Class = "CALL cc,nn"
		case 5:
			if q == 0 {
				if xy && p != 2 {
					return BusExp{}
				}
				var v uint16
				switch p {
				case 0:
					v = s.bc()
				case 1:
					v = s.de()
				case 2:
					v = ptr
				default:
					v = uint16(s.A)<<8 | uint16(s.F)
				}
				push(&e, s.SP, v)
				e.Class = "PUSH"
			} else {
				if xy || p != 0 {
					return BusExp{}
				}
				imm16()
				push(&e, s.SP, ret())
				e.Class = "CALL nn"
			}
		case 6:
			if xy {
				return BusExp{}
			}
			imm8()
			e.Class = "ALU A,n"
		case 7:
			if xy {
				return BusExp{}
			}
			push(&e, s.SP, ret())
			e.Class = "RST"
		}
	}
	if xy {
		e.Class = "XY:" + e.Class
	}
	return e
}

func expCB(s PreState, peek func(uint16) uint8) BusExp {
	op := peek(s.PC + 1)
	e := BusExp{Known: true, Len: 2, Class: "CB r"}
	if op&7 == 6 {
		a := s.hl()
		cbMem(&e, op, a, peek(a), s.F)
	}
	return e
}

func expXY(s PreState, peek func(uint16) uint8, xy uint16) BusExp {
	op := peek(s.PC + 1)
	switch op {
	case 0xdd, 0xfd, 0xed:
		return BusExp{} // prefix chains: not modelled
	case 0xcb:
		d := peek(s.PC + 2)
		op3 := peek(s.PC + 3)
		if op3&7 != 6 {
			return BusExp{} // undocumented register-copy forms
		}
		e := BusExp{Known: true, Len: 4}
		a := xy + uint16(int16(int8(d)))
		cbMem(&e, op3, a, peek(a), s.F)
		e.Class = "XYCB:" + e.Class
		return e
	}
	// EX DE,HL is not affected by the prefix; every other modelled opcode
	// takes IX/IY for HL. For (IX+d) forms the register operand stays H/L.
	if op == 0xeb {
		return BusExp{}
	}
	return expMain(s, peek, op, s.PC+2, 2, xy, true, 0)
}

func expED(s PreState, peek func(uint16) uint8) BusExp {
	op := peek(s.PC + 1)
	e := BusExp{Known: true, Len: 2}
	x, y, z := op>>6, (op>>3)&7, op&7
	p, q := y>>1, y&1
	imm16 := func() uint16 {
		e.Len += 2
		return uint16(peek(s.PC+2)) | uint16(peek(s.PC+3))<<8
	}
	switch {
	case x == 1:
		switch z {
		case 0:
			if y == 6 {
				return BusExp{}
			}
			e.Ports = append(e.Ports, PortOp{Port: s.C})
			e.In = []InDest{InB, InC, InD, InE, InH, InL, InNone, InA}[y]
			e.Class = "IN r,(C)"
		case 1:
			if y == 6 {
				return BusExp{}
			}
			e.Ports = append(e.Ports, PortOp{Out: true, Port: s.C, Val: s.r8(y)})
			e.Class = "OUT (C),r"
		case 2:
			e.Class = "ADC/SBC HL,rp"
		case 3:
			nn := imm16()
			var v uint16
			switch p {
			case 0:
				v = s.bc()
			case 1:
				v = s.de()
			case 2:
				v = s.hl()
			default:
				v = s.SP
			}
			if q == 0 {
				e.Writes = append(e.Writes, AV{Addr: nn, Val: lo(v)}, AV{Addr: nn + 1, Val: hi(v)})
				e.Class = "LD (nn),rp"
			} else {
				e.Reads = append(e.Reads, nn, nn+1)
				e.Class = "LD rp,(nn)"
			}
		case 4:
			if y != 0 {
				return BusExp{}
			}
			e.Class = "NEG"
		case 5:
			if y > 1 {
				return BusExp{}
			}
			pop(&e, s.SP)
			e.Class = "RETN/RETI"
		case 6:
			if y != 0 && y != 2 && y != 3 {
				return BusExp{}
			}
			e.Class = "IM n"
		case 7:
			switch y {
			case 0, 1, 2, 3:
				e.Class = "LD I/R,A / LD A,I/R"
			case 4:
				a := s.hl()
				v := peek(a)
				e.Reads = append(e.Reads, a)
				e.Writes = append(e.Writes, AV{Addr: a, Val: s.A<<4 | v>>4})
				e.RMW = true
				e.Class = "RRD"
			case 5:
				a := s.hl()
				v := peek(a)
				e.Reads = append(e.Reads, a)
				e.Writes = append(e.Writes, AV{Addr: a, Val: v<<4 | s.A&0x0f})
				e.RMW = true
				e.Class = "RLD"
			default:
				return BusExp{}
			}
		}
	case x == 2 && z <= 3 && y >= 4:
		a := s.hl()
		switch z {
		case 0:
			e.Reads = append(e.Reads, a)
			e.Writes = append(e.Writes, AV{Addr: s.de(), Val: peek(a)})
			e.Class = "LDI/LDD/LDIR/LDDR"
		case 1:
			e.Reads = append(e.Reads, a)
			e.Class = "CPI/CPD/CPIR/CPDR"
		case 2:
			e.Ports = append(e.Ports, PortOp{Port: s.C})
			e.Writes = append(e.Writes, AV{Addr: a, FromPort: true})
			e.In = InMem
			e.Class = "INI/IND/INIR/INDR"
		case 3:
			e.Reads = append(e.Reads, a)
			e.Ports = append(e.Ports, PortOp{Out: true, Port: s.C, Val: peek(a)})
			e.Class = "OUTI/OUTD/OTIR/OTDR"
		}
	default:
		return BusExp{}
	}
	return e
}
