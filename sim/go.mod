module github.com/koron-go/z80/verifsim

go 1.26.8

require github.com/koron-go/z80 v0.0.0

replace github.com/koron-go/z80 => /repo
