#!/usr/bin/env python3
"""Regenerates MANIFEST.json and rules.json from one place (run by hand after
changing what is claimed; not used by the checks)."""
import json
import os

HERE = os.path.dirname(os.path.abspath(__file__))

NA = {
    "C01": "one Step is a pure function of (pre-state, bytes returned by memory and ports): no schedule, clock, fault or interleaving to search; deciding it means sampling/enumerating pre-states against a full ISA reference (differential testing, another family). Its bus-visible part is claimed as C05.",
    "C02": "a finite cube A x operand x F per operation that the property itself says is to be enumerated completely: bounded-exhaustive checking of pure functions, not seeded search over schedules or faults.",
    "C03": "2^33 operand/carry points per 16-bit operation, combinational, no environment involved: pure function of the input.",
    "C04": "taken/untaken, pushed address and PUSH/POP identity are pure functions of F, B, PC, SP and the stack bytes; nothing to schedule or break (control flow under interrupts is claimed as C07).",
    "C11": "a metamorphic relation between two single, pure Step executions (DD form vs FD form); no event, fault or history.",
    "C14": "R and I after a Step are pure functions of the fetched opcode bytes; multi-step behaviour is their fold; the statement is silent about acceptance Steps so no event dimension exists (R is compared wherever twins must agree: C08, C10, C13).",
    "C15": "sequential, passive byte stores with no concurrency claim and no I/O: operation-sequence-vs-map testing with nothing to inject (their out-of-range behaviour as CPU devices is exercised in C12).",
    "C16": "pure bit functions over 256x256 and 65536 values, to be enumerated; no schedule, fault or history.",
    "C17": "equality of static artefacts (Go tables vs bytes in .cim images); nothing executes, nothing to simulate.",
    "C19": "file-to-file pure functions in two main packages that call os.ReadFile/os.Create directly: no seam for a simulated disk without rewriting them, and the statement has no fault clause.",
}

# id -> (level, level text, level note, technique, design ref, rule, assumptions)
CHECKS = {
    "C05": ("exploration",
            "Every Step's recorded bus history (memory reads, (addr,value) writes, ordered port log) is compared with a bus-level reference model: all 1792 candidate encodings of the seven decode tables are cycled (never sampled) from seeded corner-biased pre-states (pointer registers at 0x0000/0xFFFF, operands overlapping the instruction, all F), one case in five with a device raising a request from inside an access of the instruction; plus structured programs with interrupts checked Step by Step including acceptance Steps. Sampling over pre-states: evidence, not proof. Thinnest fit of the family (mostly fault-free conformance of a seam history), said so in DESIGN.md.",
            "Trusts the bus model (sim/model/busmodel.go, my reading of the Z80 M-cycle tables, organised by octal opcode fields) and the recording devices. Encodings for which the implementation logs 'invalid code' are skipped (not implemented); encodings the model does not know would be counted as unmodelled and skipped (currently none).",
            "deterministic simulation: recording device seam + bus-level reference model, seeded pre-states, mid-instruction request injection",
            "DESIGN.md 4 C05, appendix B",
            "sweep batches of 64 one-instruction cases cycling all 7x256 encodings with seeded corner-biased registers/operands (1 in 5 with a request raised by the device callback of a chosen access), plus structured programs with NMI/INT events; a case is non-trivial when the encoding is implemented and modelled and its Step history was compared (distinct = distinct (scenario, case) pairs)",
            ["bus-level reference model is my reading of the Zilog documentation", "write order within a 16-bit store is not constrained (multiset), as the statement says"]),
    "C06": ("exploration",
            "Seeded search over interrupt histories (request kind x mode x IFF1 x IFF2 x halted cycled exhaustively in the single-event family; data, PC/SP corners incl. wrap, mid-instruction and on-RETI raising sampled; histories to 40 Steps with up to 4 requests), every Step compared in lock-step with an abstract interrupt-controller model written from the property text; plus bus-history oracle for acceptance Steps and a twin oracle for refusal Steps. Sampling evidence, not proof.",
            "Trusts the abstract model (sim/model/intmodel.go, ~200 lines) and the simulated devices; statement-silent corners (odd mode-2 vectors, empty data, mode-0 data other than RST/CALL, SP inside the mode-0 overlay, the word pushed in mode 0) end the comparison without verdict.",
            "deterministic simulation: seeded event schedules + lock-step abstract interrupt-controller model",
            "DESIGN.md 4 C06, appendix C",
            "two thirds single-event scenarios cycling the 48 control combinations (NMI/INT x IM0/1/2 x IFF1 x IFF2 x running/parked), one third histories (<=40 Steps, 1-4 requests placed at boundaries, inside an access, or on the next RETI/RETN notification) over mini-ISA code pads; non-trivial = at least one Step began with a request in the slot; distinct by scenario fingerprint",
            ["abstract controller model written from the property text", "EI delay: acceptance 0 or 1 instruction after EI both allowed"]),
    "C07": ("fault_enumeration",
            "Twin worlds. For each sampled register-transparent program (ALU/load code, loops, subroutines, block instructions, DI/EI sections, I/O, final HALT) the request is injected at EVERY Step boundary 0..N (N = parked on the executed HALT) for each kind valid in the program's mode (NMI, mode 0 RST n, mode 0 CALL nn, mode 1, mode 2) and the final registers (minus R), halted indication, memory (outside the handler's counter cell and the stack bytes below SP), ordered port log and handler count are compared with the undisturbed run; plus sampled 2-3 request schedules (nesting, mid-instruction raising). Enumeration is complete per program; programs are sampled.",
            "Trusts the program generator to emit register-transparent code (it never reads below SP, never executes LD A,R / LD I,A) and the handlers to be transparent; mode-0 resume-address defect is a recorded known finding (signature im0-resume-offset-eq-len): the harness repairs the two stack bytes as the environment and keeps checking everything else. At most one NMI per schedule (an NMI inside an NMI handler is not transparent on silicon either).",
            "deterministic simulation: twin worlds, exhaustive enumeration of injection points per sampled program",
            "DESIGN.md 4 C07",
            "3 of 4 scenarios: one generated program x every boundary x every kind; 1 of 4: a 2-3 request schedule (boundaries or ticks, second request biased into the first one's handler); non-trivial point = (program, kind, boundary) at which the request was actually accepted and served (counted per distinct program fingerprint)",
            ["generated programs are register-transparent by construction", "handlers restore what they use and leave with EI;RETI / RETN"]),
    "C08": ("exploration",
            "Twin worlds: the same machine is driven once by Run and once by Step with the stop rule (breakpoint first, then executed HALT, at least one Step) applied by the harness; 'a HALT was executed' is read off the bus history, not off cpu.HALT. Host scripts: repeated Run calls, Steps in between, breakpoint edits (nil / empty / start PC / HALT address / inside multi-byte instructions / wrap-around addresses), stale HALT flag, requests raised between calls; devices raise NMI/INT from inside memory and port accesses while Run executes and on RETI notifications. After every host action: error value, stop point (tick count), registers incl. R, memory, port log, pending request, notification counts must agree; a per-Run tick budget catches a Run that does not stop.",
            "Trusts the harness's statement of the stop rule; mode-0 data restricted to RST/CALL (a HALT supplied by the interrupting device leaves no fetch on the bus). When a breakpoint and a HALT coincide the HALT flag's value is not compared (statement silent).",
            "deterministic simulation: Run-driven vs Step-driven twin, seeded host scripts and device-raised interrupts",
            "DESIGN.md 4 C08",
            "structured programs with handlers, 0-3 breakpoints, 0-3 events (tick / on-RETI / host-raised), host script of 1-8 actions + 2 final Runs; 1 in 8 scenarios is a PC wrap-around program; non-trivial = an interrupt was accepted during Run, or breakpoints present, or more than three host actions; distinct by scenario fingerprint",
            ["stop rule as stated in the property", "context.Background() (cancellation is C13)"]),
    "C09": ("exploration",
            "Each of the 16 block instructions is run to completion (up to 65536 Steps) from seeded set-ups (BC/B in {0,1,2,255,256,65535,random}, pointers anywhere incl. overlap -3..+3, wrap at 0xFFFF, ranges covering the instruction itself, search byte present/absent/last/dense) and compared with a direct whole-operation specification: counters, pointers, A, PC, documented flags, full memory image, ordered port log; per Step exactly one element's accesses and PC staying on the instruction. Two thirds of the scenarios inject events at element boundaries (NMI, mode 1, mode 2 with a transparent handler, crash/restore from durable state), for counts <= 32 at every boundary in turn: the outcome must be invariant.",
            "Trusts the whole-operation specification (sim/model/blockspec.go). Only documented flags are compared (LDxR: H N P/V + preserved S Z C; CPxR: S Z H P/V N + preserved C; I/O forms: Z and N). When a copy overwrites its own opcode the comparison stops where hardware would re-decode.",
            "deterministic simulation: whole-operation reference + event/crash injection at element boundaries",
            "DESIGN.md 4 C09",
            "one block instruction per scenario (16 forms cycled), seeded counts/pointers/memory/port stream; 2 of 3 with 1-3 events (NMI/IM1/IM2/CRASH) at element boundaries or enumerated over every boundary for small counts; distinct non-trivial = (scenario, injection point) executions that ran to the specified end",
            ["whole-operation specification written from the Z80 documentation"]),
}

CHECKS["C12"] = ("exploration",
                 "Fault injection on the environment: arbitrary byte strings with a high density of prefixes / HALT / I/O opcodes and prefix chains cut off at 0xFFFF, arbitrary register files, IM in {0,1,2,3,-1,7,255,2^31..2^40}, the library's own DumbMemory of length 0..65536, sparse MapMemory, nil IO, short DumbIO, malformed Interrupt values (unknown types, nil/empty/1-4 byte/70000-byte data, prefix-only data, HALT or I/O as mode-0 instruction) raised at Step boundaries and from inside device accesses (also while an acceptance is in progress); long request data (5..70000 bytes) starts with a seeded instruction, often one that accesses memory; a quarter of the Step-driven worlds hand the library's DumbMemory/MapMemory/DumbIO to the CPU directly instead of behind the recording wrapper (type-specific fast paths only exist for the real types). Oracles: no panic in any Step or Run; Run returns at the Step in which a Step-driven twin in an identical environment shows an executed HALT or a breakpoint (else it is ended by cancellation); a Step that logged the invalid-code warning made sequential fetches only, advanced PC by exactly that many bytes, and the next Step fetches the next byte.",
                 "After an environment fault only totality is demanded (deliberately narrow). 'Unsupported' is decided dynamically from the captured log output of the Step. A Run that ignores cancellation ends the scenario without verdict (that is C13's subject). The real-goroutine watcher of Run makes the number of Steps after cancel() schedule dependent; nothing is compared after it.",
                 "deterministic simulation: environment fault injection (degraded devices, malformed requests at chosen instants) + totality/recover oracle",
                 "DESIGN.md 4 C12",
                 "seeded hostile worlds: memory kind/length, io kind/length, IM, hostile patch at PC or at the top of memory, 0-3 malformed requests at boundaries or ticks (long data led by a seeded instruction); 1 in 4 driven by Run with a Step-driven twin and a tick budget; 1 in 4 of the Step-driven ones with the library's memory/port types handed to the CPU directly; every scenario is non-trivial (distinct by fingerprint)",
                 ["implementation's invalid-code warning contains the word 'invalid'"])

CHECKS["C10"] = ("fault_enumeration",
                 "(a) every scenario is executed twice and must produce the identical boundary-by-boundary record; (b) crash/restart with only durable state surviving: at EVERY Step boundary of each sampled world (structured programs and arbitrary byte strings, with NMI/INT events at boundaries, inside accesses and on RETI) a new CPU is built from copies of States, memory image, pending request and device cursors and must equal the original at every later boundary (registers incl. R, HALT, complete bus history, pending request, notifications) and in the final memory image; (c) 2..16 CPUs with their own programs and devices on their own goroutines, parked at every bus access and released one at a time by the seeded scheduler, each compared with its solo run; (d) side-car outside the family: the same worlds free-running in the -race binary, verdict = race detector. (e) memory-type independence: the same world on the recording device, on the library's DumbMemory, on a fully populated MapMemory and on DumbMemory+DumbIO against neutral array devices with equal contents must agree at every boundary (the outcome may depend on the bytes returned, not on which implementation returns them). Requests are built through the library's own constructors.",
                 "Restored CPU also receives the public HALT field (public state). The controlled scheduler serialises through channels and therefore cannot see data races; that part is delegated to the race side-car, which is runtime monitoring, not schedule-replayable (its replay file is the stress configuration) and is labelled so in the evidence. Long worlds in the thorough tier sample snapshot points with a stride.",
                 "deterministic simulation: crash/restore at every boundary + seeded goroutine interleaving at bus accesses; race detector side-car",
                 "DESIGN.md 4 C10",
                 "2 of 3 scenarios: one world (20-300 Steps) executed twice, then on the library's DumbMemory / MapMemory / DumbIO against neutral devices with equal contents (memory-type independence), then x every snapshot boundary; 1 of 3: 2-16 worlds interleaved under a seeded pick sequence; race-binary workers: 2-16 free-running worlds; distinct non-trivial = (world, snapshot boundary) pairs that were restored and followed to the end, plus interleaved worlds with more context switches than CPUs",
                 ["durable state = States + memory image + pending request + device cursors + HALT flag"])

CHECKS["C18"] = ("exploration",
                 "Generated CP/M programs (1-20 items: function 2, function 9 with strings of length 0..4096 of every byte value but '$' at non-overlapping addresses, filler, OUT to ports != 0, IN, finally JP 0 or an unsupported function) run on the real tinycpm.Memory/IO from the working tree with a simulated console. Fault-free console: bytes received = BDOS specification, exactly (exactly-once, ordered), also across Run re-entries after breakpoints on every return address, cancellations in the middle of a string (synctest bubble, so the cancellation instant is exact) and NMI / mode-1 requests served by transparent handlers inside the BDOS loop. Under injected console faults (Write returns (0,err), (0,nil) or (n,err) on chosen calls) the relaxation is narrow: accepted bytes form a subsequence of the expected stream and only failed calls' payload may be missing. A quarter of the interrupt-free programs run with a tight stack (exactly the one slot a CALL needs behind the program image or the last string); code and strings are compared at the end. Also: SP and caller code intact at every return, end state halted at 0xFF03, >= 1 warning line per offending port access and none otherwise.",
                 "BDOS specification is three lines (fn 2 -> [E]; fn 9 -> bytes at DE up to '$'). Unsupported function numbers: only 'no panic, Run returns' is demanded (statement silent).",
                 "deterministic simulation: real tinycpm devices, fault-injecting console writer, host re-entry/cancel/interrupt events",
                 "DESIGN.md 4 C18",
                 "seeded CP/M programs; 1/3 with breakpoints after every call, 1/3 with 1-3 failing console writes, 1/3 with NMI/INT at ticks, 1/8 with cancellations at ticks, 1/4 of the interrupt-free ones with a tight stack; non-trivial = program asks for at least one console byte; distinct by scenario fingerprint",
                 ["BDOS behaviour as in the property statement"])

CHECKS["C13"] = ("fault_enumeration",
                 "Every scenario runs in a testing/synctest bubble. Run's goroutine enters simulator code at every bus access; there the simulator fires the cancellation (cancel() on Run's own goroutine, from a second goroutine, a fake-clock deadline with simulated per-access latency, an already cancelled context, or never) and calls synctest.Wait(), which returns only when Run's watcher, context's propagation goroutines and the canceller are durably blocked or gone: 'the watcher has published' is a known instant. Slow watchers are produced through the caller-supplied context (SimCtx) whose n-th Err() call is held for j further accesses. Cancellation instants: a window of consecutive ticks (so every access phase inside an instruction is hit) plus seeded ones, per program class (2-byte JR loop, DJNZ nest, LDIR with BC=0 in a loop, IN/OUT loop, structured terminating programs with interrupts and breakpoints). Oracles: returned error is the context's error unless the stop rule fired at that very Step (never nil otherwise); bounded liveness: at most 65536 Steps start after publication; the CPU equals a Step-driven twin after a whole number of Steps (a return tick inside a twin Step = stopped mid-instruction) and does not change after Run returned; no goroutine left: contexts are never cancelled by the harness afterwards and the bubble must end without the deadlock panic (also after 200-10000 consecutive Run calls). Cancellation instants also bracket the Step that halts / reaches a breakpoint, and a cancelled Run is resumed by a second Run whose end state must equal repeated Step. The same bubbles also run in the -race binary, plus two labelled side-cars whose goroutine schedule the simulator does not own: free-running cancellation from a real second goroutine (asserts only the detector's verdict and the error value, never a delay), and 'reuse' (one CPU object, 50-300 rounds of: short Run, host cancels that context after the Run returned, long Run with a live context must end at its HALT with nil in the Step-twin's state).",
                 "Liveness bound is deliberately generous (65536 Steps) so that a legitimate 'poll every n Steps' optimisation does not alarm (checked: a poll-every-64 variant stays quiet). With an already-cancelled context the very first Step races with the watcher by design (no seam before the first access): both outcomes are accepted and excluded from the replayable statistics. Process-wide goroutine counts are not used as an oracle (the runtime starts helper goroutines lazily; it was flaky) - the bubble-scoped deadlock panic is. The race side-car and the reuse side-car are runtime monitoring of uncontrolled schedules, outside the family: there is no seam between a stale watcher's wake-up and its store, so that interleaving cannot be forced; their replay file is the stress scenario, re-executed up to 6 times for confirmation.",
                 "deterministic simulation: synctest bubble (fake clock, quiescence) + device-callback yield points + caller-supplied context as a second seam; enumerated cancellation instants",
                 "DESIGN.md 4 C13",
                 "5 of 6 scenarios: one bubble = 4-12 Run calls on fresh CPUs, each cancelled at its own tick (half of them consecutive ticks), parent context in {Background, WithCancel, WithTimeout, nested, SimCtx with held Err call}, cancel by {self, other goroutine, fake-clock deadline, pre-cancelled, never}; 1 of 6: 200-10000 consecutive Run calls for leak accounting; 1 of 12: 'reuse' (one CPU object, 50-300 rounds of short Run / late cancel / long Run; schedule not owned, labelled); loop programs: JR, DJNZ nest, LDIR BC=0 onto itself, IN/OUT, JP (IX) self-loop, LDIR+JP (IX), IN A,(C) wait loop, each with a seeded initial R; cancellation instants also bracket the natural stop of structured programs, and cancelled Runs are resumed; race-binary workers: bubbles, free-running cancellation and reuse; distinct non-trivial = (scenario, cancellation instant) pairs in which Run was actually ended by the cancellation",
                 ["synctest.Wait() returns only when all other goroutines of the bubble are durably blocked", "B = 65536 Steps"])

PENDING = []


def chk(pid):
    level, text, note, tech, ref, _rule, _ass = CHECKS[pid]
    return {"property_id": pid, "quick_cmd": "./run.sh %s quick" % pid, "thorough_cmd": "./run.sh %s thorough" % pid,
            "evidence_file": "/verif/evidence/%s.json" % pid, "replay_cmd_template": "./run.sh replay {path}", "engine": "z80sim",
            "level_claimed": {"category": level, "text": text, "design_ref": ref}, "level_note": note, "technique": tech}


def main():
    na = dict(NA)
    for k in PENDING:
        if k not in CHECKS:
            na[k] = "check not built yet in this session (planned, DESIGN.md section 4); will move to checks when its machinery is committed"
    m = {
        "version": 1,
        "setup_cmd": "./run.sh setup",
        "hooks": {"guard": "verif",
                  "enable": "go test -tags verif (the tag selects nothing: no hook was added to /repo; every seam used is an existing interface: Memory, IO, CPU.Interrupt, RETN/RETI handlers, context.Context, io.Writer, *log.Logger)",
                  "baseline_off_cmd": "cd /repo && go test -vet=off -count=1 -timeout 25m ./...", "source_commits": [], "add_only": True},
        "engines": [{"name": "z80sim", "path": "/verif/sim", "serves_properties": sorted(CHECKS),
                     "kind_free_text": "deterministic simulation with fault injection: real z80.CPU inside a simulated machine (recording memory/port devices as tick source, interrupt controller, host, fake clock), seeded scenario search, oracles = twin worlds + small reference models, structural shrinking, replay files confirmed in a fresh process"}],
        "checks": [chk(p) for p in sorted(CHECKS)],
        "not_applicable": [{"property_id": k, "reason": v} for k, v in sorted(na.items())],
        "notes": "Family: deterministic simulation with fault injection. Changes that only corrupt a flag or register result of an instruction (C01-C04) are out of scope of every check here unless they disturb bus traffic, control flow under interrupts, or twin-run equality. Repairs made to /repo (fix: commits) and the one recorded finding are listed in KNOWN_FINDINGS.txt.",
    }
    json.dump(m, open(os.path.join(HERE, "MANIFEST.json"), "w"), indent=1)
    rules = {"rules": {k: v[5] for k, v in CHECKS.items()}, "assumptions": {k: v[6] for k, v in CHECKS.items()}}
    json.dump(rules, open(os.path.join(HERE, "rules.json"), "w"), indent=1)


if __name__ == "__main__":
    main()
